#!/venv/bin/python
"""C14 - derived crystal data always reflect the crystal's current state.

Deterministic simulation of API call histories (queries, in-place mutators,
snapshots, raising operations, injected write/allocation failures) on live
`Crystal` objects, judged against a freshly constructed crystal after every
step. See /verif/DESIGN.md section 3.

usage: checks/c14.py [--tier quick|thorough] [--replay FILE]
                     [--selftest determinism|sensitivity] [--workers N]
exit 0: property held on everything explored (KNOWN-FINDING lines possible)
exit 1: `VIOLATION property=C14 replay=<path>` printed for a confirmed violation
exit 2: harness error / timeout (never reported as success)
"""
import argparse
import json
import os
import subprocess
import sys
import time

VERIF = os.path.dirname(os.path.dirname(os.path.abspath(__file__)))
SRC = os.environ.get("CHMPY_VERIF_SRC", "/repo/src")
PY = sys.executable


def ensure_env():
    want = {
        "PYTHONHASHSEED": os.environ.get("CHMPY_VERIF_HASHSEED", "0"),
        "OMP_NUM_THREADS": "1",
        "OPENBLAS_NUM_THREADS": "1",
        "MKL_NUM_THREADS": "1",
        "CHMPY_VERIF": "1",
    }
    if os.environ.get("CHMPY_VERIF_OPTIMIZE") == "1":
        # the slice of the batch that runs in an interpreter without assert statements (python -O)
        want["PYTHONOPTIMIZE"] = "1"
    if any(os.environ.get(k) != v for k, v in want.items()):
        env = dict(os.environ)
        env.update(want)
        os.execve(PY, [PY] + sys.argv, env)


def main():
    ap = argparse.ArgumentParser()
    ap.add_argument("--tier", default=os.environ.get("VERIF_TIER", "quick"), choices=["quick", "thorough"])
    ap.add_argument("--replay")
    ap.add_argument("--selftest", choices=["determinism", "sensitivity"])
    ap.add_argument("--workers", type=int, default=int(os.environ.get("VERIF_WORKERS", "0")) or None)
    ap.add_argument("--fingerprints", help="internal: stratum:start:count[,...] -> print fingerprints as JSON")
    ap.add_argument("--slice", help="internal: stratum:start:count[:stride][,...] -> run and judge these histories only")
    ap.add_argument("--random-runs", type=int)
    ap.add_argument("--budget", type=float, help="thorough: wall-clock seconds for the random stratum")
    ap.add_argument("--no-evidence", action="store_true")
    ap.add_argument("--src", help="internal: run against this chmpy source tree")
    args = ap.parse_args()
    if args.src:
        os.environ["CHMPY_VERIF_SRC"] = args.src
    if args.replay:
        # a history found in an interpreter started with -O is replayed in one
        try:
            with open(args.replay) as f:
                if json.load(f).get("python_optimize"):
                    os.environ["CHMPY_VERIF_OPTIMIZE"] = "1"
        except (OSError, ValueError):
            pass
    ensure_env()
    sys.path.insert(0, os.environ.get("CHMPY_VERIF_SRC", SRC))
    sys.path.insert(0, VERIF)
    from sim import runner

    seed = int(os.environ.get("VERIF_SEED", "0") or 0)
    if args.replay:
        sys.exit(runner.replay_main(args.replay))
    if args.slice:
        sys.exit(runner.slice_main(seed, args.slice, args.workers))
    if args.fingerprints:
        sys.exit(runner.fingerprints_main(seed, args.fingerprints, args.workers))
    if args.selftest == "determinism":
        sys.exit(runner.determinism_main(seed, args.workers))
    if args.selftest == "sensitivity":
        sys.exit(runner.sensitivity_main(seed, args.workers))
    sys.exit(runner.check_main(args.tier, seed, args))


if __name__ == "__main__":
    main()
