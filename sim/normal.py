"""Normalisation, comparison and digests of chmpy answers.

`norm(x)` turns any value a Crystal query can return into a plain nested
structure (dict / list / scalar / numpy leaf arrays that are *copies*), so that
later in-place damage to a cached object cannot rewrite a recorded outcome.
`same(a, b)` compares two normalised values (floats with a tolerance, the
lazily added `asym_mol_idx` annotation only when both sides carry it).
`digest(n)` is an exact (bit-level) fingerprint used for event logs/replay.
"""
import hashlib
import math

import numpy as np

from chmpy.core.element import Element
from chmpy.core.molecule import Molecule
from chmpy.crystal import AsymmetricUnit, Crystal, SpaceGroup, UnitCell
from chmpy.crystal.space_group import SG_FROM_SYMOPS
from chmpy.crystal.symmetry_operation import SymmetryOperation

TOL = 1e-8
MOL_PROPS = (
    "unit_cell_atoms",
    "asymmetric_unit_atoms",
    "asymmetric_unit_labels",
    "generator_symop",
    "asym_mol_idx",
)


def _arr(x):
    x = np.asarray(x)
    k = x.dtype.kind
    if k in "fc":
        return np.array(x, copy=True)  # precision (float32 / float64) is part of the answer
    if k in "iub":
        return np.array(x, dtype=np.int64, copy=True)
    return {"__objarr__": list(x.shape), "v": [norm(v) for v in x.ravel().tolist()]}


def _sparse(m):
    coo = m.tocoo()
    order = np.lexsort((coo.col, coo.row))
    return {
        "__sparse__": [int(m.shape[0]), int(m.shape[1])],
        "row": np.array(coo.row[order], dtype=np.int64),
        "col": np.array(coo.col[order], dtype=np.int64),
        "val": np.array(coo.data[order], dtype=np.float64),
    }


def occupation_of(asym):
    occ = asym.properties.get("occupation", None)
    if occ is None:
        return np.ones(len(asym), dtype=np.float64)
    try:
        return np.array(occ, dtype=np.float64, copy=True)
    except (TypeError, ValueError):  # e.g. '?' (unknown) in a CIF occupancy column
        return _arr(np.asarray(occ))


def norm_crystal(c):
    uc, sg, au = c.unit_cell, c.space_group, c.asymmetric_unit
    codes = sorted(int(s.integer_code) for s in sg.symmetry_operations)
    # for a tabulated setting the number and choice follow from the operations;
    # for a non-tabulated one the reader takes the number from an optional CIF
    # item that a freshly constructed crystal's export does not carry, so there
    # the operation set alone identifies the group
    tabulated = tuple(codes) in SG_FROM_SYMOPS
    return {
        "__crystal__": 1,
        "direct": _arr(uc.direct),
        "it_number": int(sg.international_tables_number) if tabulated else None,
        "choice": str(sg.choice) if tabulated else None,
        "symops": codes,
        "numbers": _arr(au.atomic_numbers),
        "positions": _arr(au.positions),
        "labels": [str(x) for x in au.labels],
        "occupation": occupation_of(au),
        "elements": [int(e.atomic_number) for e in au.elements],
        "name": str(c.titl),
        "inverse": _arr(uc.inverse),
        "lengths_angles": [_arr(np.asarray(uc.lengths, dtype=float)), _arr(np.asarray(uc.angles, dtype=float))],
    }


def norm_molecule(m):
    props = {str(k): norm(v) for k, v in m.properties.items()}
    out = {
        "__mol__": 1,
        "numbers": _arr(m.atomic_numbers),
        "positions": _arr(m.positions),
        "labels": [str(x) for x in m.labels],
        "props": props,
        "elements": [int(e.atomic_number) for e in m.elements],
        "charge": norm(getattr(m, "charge", None)),
        "multiplicity": norm(getattr(m, "multiplicity", None)),
    }
    if getattr(m, "bonds", None) is not None:
        out["bonds"] = _sparse(m.bonds)
    return out


def norm(x):
    if x is None or isinstance(x, str):
        return x
    if isinstance(x, (bool, np.bool_)):
        return bool(x)
    if isinstance(x, (int, np.integer)):
        return int(x)
    if isinstance(x, (float, np.floating)):
        return float(x)
    if isinstance(x, (complex, np.complexfloating)):
        return [float(x.real), float(x.imag)]
    if isinstance(x, slice):
        return {"__slice__": [x.start, x.stop, x.step]}
    if isinstance(x, np.ndarray):
        return _arr(x)
    if isinstance(x, Molecule):
        return norm_molecule(x)
    if isinstance(x, Crystal):
        return norm_crystal(x)
    if isinstance(x, Element):
        return int(x.atomic_number)
    if isinstance(x, SymmetryOperation):
        return {"__symop__": int(x.integer_code)}
    if isinstance(x, UnitCell):
        return {"__uc__": _arr(x.direct)}
    if isinstance(x, SpaceGroup):
        return {
            "__sg__": [int(x.international_tables_number), str(x.choice)],
            "symops": sorted(int(s.integer_code) for s in x.symmetry_operations),
        }
    if isinstance(x, AsymmetricUnit):
        return {
            "__asym__": 1,
            "numbers": _arr(x.atomic_numbers),
            "positions": _arr(x.positions),
            "labels": [str(v) for v in x.labels],
        }
    if hasattr(x, "tocoo") and hasattr(x, "shape"):
        return _sparse(x)
    if isinstance(x, dict):
        items = [(str(k), norm(v)) for k, v in x.items()]
        items.sort(key=lambda kv: kv[0])
        return dict(items)
    if isinstance(x, (list, tuple)):
        return [norm(v) for v in x]
    if isinstance(x, (set, frozenset)):
        return {"__set__": sorted(repr(norm(v)) for v in x)}
    tname = type(x).__module__ + "." + type(x).__name__
    if tname.startswith("trimesh.") and hasattr(x, "vertices") and hasattr(x, "faces"):
        return {"__trimesh__": 1, "vertices": _arr(x.vertices), "faces": _arr(x.faces)}
    if tname.startswith("trimesh.") and hasattr(x, "geometry"):
        return {"__scene__": 1, "geometry": norm(dict(x.geometry))}
    if tname.startswith("chmpy.") and hasattr(x, "__dict__"):
        # e.g. Dimer, PowderPattern: compared attribute by attribute
        return {"__obj__": tname, "attrs": norm({k: v for k, v in vars(x).items() if not callable(v)})}
    # unknown objects: only their type takes part in the comparison
    return {"__type__": tname}


def _same_float(a, b, tol):
    if math.isnan(a) and math.isnan(b):
        return True
    if math.isinf(a) or math.isinf(b):
        return a == b
    return abs(a - b) <= tol * max(1.0, abs(a), abs(b))


def same(a, b, tol=TOL):
    """Structural equality of two normalised values."""
    if isinstance(a, np.ndarray) or isinstance(b, np.ndarray):
        if not (isinstance(a, np.ndarray) and isinstance(b, np.ndarray)):
            return False
        if a.shape != b.shape or a.dtype.kind != b.dtype.kind:
            return False
        if a.dtype.kind in "fc" and a.dtype != b.dtype:
            return False
        if a.dtype.kind in "fc":
            if a.size == 0:
                return True
            nan_a, nan_b = np.isnan(a), np.isnan(b)
            if not np.array_equal(nan_a, nan_b):
                return False
            fa, fb = a[~nan_a], b[~nan_b]
            inf = np.isinf(fa) | np.isinf(fb)
            if inf.any() and not np.array_equal(fa[inf], fb[inf]):
                return False
            fa, fb = fa[~inf], fb[~inf]
            scale = np.maximum(1.0, np.maximum(np.abs(fa), np.abs(fb)))
            return bool(np.all(np.abs(fa - fb) <= tol * scale))
        return bool(np.array_equal(a, b))
    if isinstance(a, bool) or isinstance(b, bool):
        return type(a) is type(b) and a == b
    if isinstance(a, float) and isinstance(b, float):
        return _same_float(a, b, tol)
    if type(a) is not type(b):
        return False
    if isinstance(a, dict):
        if "__mol__" in a and "__mol__" in b:
            pa, pb = a["props"], b["props"]
            if ("asym_mol_idx" in pa) != ("asym_mol_idx" in pb):
                # lazily added annotation: compared only when both sides carry it
                pa = {k: v for k, v in pa.items() if k != "asym_mol_idx"}
                pb = {k: v for k, v in pb.items() if k != "asym_mol_idx"}
            ra = {k: v for k, v in a.items() if k != "props"}
            rb = {k: v for k, v in b.items() if k != "props"}
            return _same_dict(ra, rb, tol) and _same_dict(pa, pb, tol)
        return _same_dict(a, b, tol)
    if isinstance(a, list):
        return len(a) == len(b) and all(same(x, y, tol) for x, y in zip(a, b))
    return a == b


def _same_dict(a, b, tol):
    if a.keys() != b.keys():
        return False
    return all(same(a[k], b[k], tol) for k in a)


def first_difference(a, b, tol=TOL, path="$"):
    """Human readable location of the first difference (for reports only)."""
    if same(a, b, tol):
        return None
    if isinstance(a, dict) and isinstance(b, dict):
        if a.keys() != b.keys():
            return "%s: keys %s vs %s" % (
                path,
                sorted(set(a) - set(b)),
                sorted(set(b) - set(a)),
            )
        for k in a:
            d = first_difference(a[k], b[k], tol, path + "." + k)
            if d:
                return d
    if isinstance(a, list) and isinstance(b, list):
        if len(a) != len(b):
            return "%s: length %d vs %d" % (path, len(a), len(b))
        for i, (x, y) in enumerate(zip(a, b)):
            d = first_difference(x, y, tol, "%s[%d]" % (path, i))
            if d:
                return d
    if isinstance(a, np.ndarray) and isinstance(b, np.ndarray):
        if a.shape != b.shape:
            return "%s: shape %s vs %s" % (path, a.shape, b.shape)
        diff = np.argwhere(~np.isclose(a, b, rtol=tol, atol=tol, equal_nan=True))
        if len(diff):
            i = tuple(int(v) for v in diff[0])
            return "%s%s: %r vs %r" % (path, list(i), a[i].item(), b[i].item())
    return "%s: %s vs %s" % (path, _short(a), _short(b))


def _short(v):
    s = repr(v)
    return s if len(s) < 80 else s[:77] + "..."


def _feed(h, n):
    if n is None:
        h.update(b"N")
    elif isinstance(n, bool):
        h.update(b"T" if n else b"F")
    elif isinstance(n, int):
        h.update(b"i" + str(n).encode())
    elif isinstance(n, float):
        h.update(b"f" + repr(n).encode())
    elif isinstance(n, str):
        h.update(b"s" + n.encode("utf-8", "replace") + b"\0")
    elif isinstance(n, np.ndarray):
        h.update(b"a" + n.dtype.str.encode() + repr(n.shape).encode())
        h.update(np.ascontiguousarray(n).tobytes())
    elif isinstance(n, dict):
        h.update(b"{")
        for k in sorted(n):
            h.update(k.encode("utf-8", "replace") + b"=")
            _feed(h, n[k])
        h.update(b"}")
    elif isinstance(n, list):
        h.update(b"[")
        for v in n:
            _feed(h, v)
            h.update(b",")
        h.update(b"]")
    else:
        h.update(repr(n).encode())


def digest(n):
    h = hashlib.sha256()
    _feed(h, n)
    return h.hexdigest()[:16]


def state_norm(c):
    """The state the property speaks of: cell, space group, asymmetric unit."""
    uc, sg, au = c.unit_cell, c.space_group, c.asymmetric_unit
    return {
        "direct": _arr(uc.direct),
        "inverse": _arr(uc.inverse),
        "lengths": _arr(uc.lengths),
        "angles": _arr(uc.angles),
        "cell_other": norm({k: v for k, v in vars(uc).items()
                            if k not in ("direct", "inverse", "lengths", "angles") and not k.startswith("_")}),
        "sg": [int(sg.international_tables_number), str(sg.choice)],
        "sg_other": [str(getattr(sg, k, None)) for k in ("symbol", "full_symbol", "centering", "schoenflies", "centrosymmetric")],
        "symops": [int(s.integer_code) for s in sg.symmetry_operations],
        "symop_arrays": [[_arr(s.rotation), _arr(s.translation)] for s in sg.symmetry_operations],
        # an operation read from a file keeps the text it was written with
        # (exports print it): part of what the space group *is* for this purpose
        "symop_text": [str(s) for s in sg.symmetry_operations],
        "numbers": _arr(au.atomic_numbers),
        "elements": [int(e.atomic_number) for e in au.elements],
        "positions": _arr(au.positions),
        "labels": [str(x) for x in au.labels],
        "occupation": occupation_of(au),
        "asym_other": norm({k: v for k, v in au.properties.items() if k != "occupation"}),
    }


def state_digest(c):
    return digest(state_norm(c))


MEMOS = (
    "_unit_cell_atom_dict",
    "_uc_graph",
    "_unit_cell_molecules",
    "_symmetry_unique_molecules",
)


def carriers_present(c):
    """Names of every piece of derived/stored data on the crystal that is not
    part of its state: underscore-prefixed instance attributes and cif_data."""
    out = [k for k in c.__dict__ if k.startswith("_")]
    if "cif_data" in c.properties:
        out.append("properties.cif_data")
    return sorted(out)


def memo_mask(c):
    return "".join("1" if m in c.__dict__ else "0" for m in MEMOS) + (
        "c" if "cif_data" in c.properties else "-"
    )


def _feed_raw(h, x, depth=0):
    """Hash a memo object in place (no normalised copy): arrays by their bytes,
    containers in their own (deterministic) iteration order."""
    if isinstance(x, np.ndarray):
        if x.dtype.kind in "OU":
            h.update(repr(x.tolist()).encode())
        else:
            h.update(x.dtype.str.encode() + repr(x.shape).encode())
            h.update(np.ascontiguousarray(x).tobytes())
    elif isinstance(x, Molecule):
        h.update(b"M")
        _feed_raw(h, np.asarray(x.positions), depth)
        _feed_raw(h, np.asarray(x.atomic_numbers), depth)
        h.update(repr([str(v) for v in x.labels]).encode())
        for k in MOL_PROPS:
            if k in x.properties:
                h.update(k.encode())
                _feed_raw(h, x.properties[k], depth + 1)
        b = getattr(x, "bonds", None)
        if b is not None:
            _feed_raw(h, b, depth + 1)
    elif hasattr(x, "tocoo") and hasattr(x, "keys"):  # dok_matrix
        h.update(repr(x.shape).encode() + repr(list(x.keys())).encode())
        h.update(np.fromiter(x.values(), dtype=np.float64).tobytes())
    elif isinstance(x, dict):
        h.update(b"{")
        for k, v in x.items():
            h.update(repr(k).encode() + b"=")
            _feed_raw(h, v, depth + 1)
        h.update(b"}")
    elif isinstance(x, (list, tuple)):
        h.update(b"[")
        for v in x:
            _feed_raw(h, v, depth + 1)
            h.update(b",")
        h.update(b"]")
    elif x is None or isinstance(x, (str, bytes, int, float, complex, bool, np.generic)):
        h.update(repr(x).encode())
    elif depth < 8 and (hasattr(x, "__dict__") or hasattr(type(x), "__slots__")):
        # holder objects: by content, never by identity (repr would carry an address)
        h.update(b"<" + type(x).__name__.encode())
        names = list(vars(x)) if hasattr(x, "__dict__") else []
        for klass in type(x).__mro__:
            for n in getattr(klass, "__slots__", ()) or ():
                if n not in names and hasattr(x, n):
                    names.append(n)
        for n in names:
            h.update(n.encode() + b"=")
            _feed_raw(h, getattr(x, n), depth + 1)
        h.update(b">")
    elif isinstance(x, (set, frozenset)):
        h.update(repr(sorted(repr(v) for v in x)).encode())
    else:
        h.update(type(x).__name__.encode())


def memo_digest(c):
    """Exact fingerprint of every memo object (fork-independence check)."""
    h = hashlib.sha256()
    for k in carriers_present(c):
        if k == "properties.cif_data":
            continue  # to_cif_data legitimately refreshes it
        h.update(k.encode())
        _feed_raw(h, c.__dict__[k])
    return h.hexdigest()[:16]
