"""The simulated world and its oracle.

A `Sim` owns a list of live `Crystal` handles, executes explicit steps one at a
time and checks the property clauses after each of them. It never draws random
numbers: the caller (generator, sweep, minimiser or replay) supplies every
step, so the same step list always gives the same execution.
"""
import logging
import warnings
import copy
import hashlib
import itertools
import json
import os
import pickle
from collections import Counter

import numpy as np

from chmpy import Crystal

from . import ops as O
from . import sources
from .inject import INJECTOR
from .normal import (
    carriers_present,
    digest,
    first_difference,
    memo_digest,
    memo_mask,
    norm,
    same,
    state_digest,
)
from .isolate import ChildFailure, RefServer, Unpicklable, forked
from .simfs import FS

MAX_HANDLES = 4


class HarnessError(Exception):
    """Something went wrong in the simulator itself (exit code 2, never a VIOLATION)."""


class Violation(Exception):
    def __init__(self, cls, step, op, handle, detail):
        Exception.__init__(self, cls)
        self.cls, self.step, self.op, self.handle, self.detail = cls, step, op, handle, detail

    def to_json(self):
        return {
            "class": self.cls,
            "step": self.step,
            "op": self.op,
            "handle": self.handle,
            "detail": self.detail,
        }


def fresh(c):
    """The reference model the property names: a freshly constructed crystal
    with the same cell, space group and asymmetric unit (no memo, no cif_data)."""
    return Crystal(*rebuild_state(c), titl=c.titl)


def _clone(x, _depth=0):
    """Independent structural copy that does not go through pickle/deepcopy
    hooks (a defect in __getstate__/__deepcopy__ of UnitCell, SpaceGroup or
    AsymmetricUnit must not leak into the reference model): arrays and
    containers are copied, instances of chmpy classes are rebuilt attribute by
    attribute, immutable leaves are shared."""
    if x is None or isinstance(x, (str, bytes, int, float, complex, bool, np.generic)):
        return x
    if isinstance(x, np.ndarray):
        return x.copy()
    if isinstance(x, list):
        return [_clone(v, _depth + 1) for v in x]
    if isinstance(x, tuple):
        if hasattr(x, "_fields"):  # namedtuple of table constants
            return x
        return tuple(_clone(v, _depth + 1) for v in x)
    if isinstance(x, dict):
        return type(x)((k, _clone(v, _depth + 1)) for k, v in x.items()) if type(x) is dict else copy.deepcopy(x)
    if isinstance(x, (set, frozenset)):
        return type(x)(x)
    cls = type(x)
    if cls.__module__.startswith("chmpy") and hasattr(x, "__dict__") and _depth < 12:
        new = cls.__new__(cls)
        for k, v in x.__dict__.items():
            new.__dict__[k] = _clone(v, _depth + 1)
        return new
    return copy.deepcopy(x)


_TEMPLATE_ATTRS = {}


def _constructor_attrs(cls):
    """Names of the attributes a freshly constructed instance carries (lazily
    attached caches inside state objects must not travel to the reference)."""
    if cls not in _TEMPLATE_ATTRS:
        from chmpy.core.element import Element
        from chmpy.crystal import AsymmetricUnit, SpaceGroup, UnitCell
        from chmpy.crystal.symmetry_operation import SymmetryOperation

        try:
            if cls is UnitCell:
                t = UnitCell(np.eye(3) * 5.0)
            elif cls is SpaceGroup:
                t = SpaceGroup(1)
            elif cls is AsymmetricUnit:
                t = AsymmetricUnit([Element[1]], np.zeros((1, 3)))
            elif cls is SymmetryOperation:
                t = SymmetryOperation.from_integer_code(16484)
            elif cls.__name__ == "Molecule":
                t = cls([Element[1]], np.zeros((1, 3)))
            else:
                t = None
            _TEMPLATE_ATTRS[cls] = None if t is None else set(vars(t))
        except Exception:  # noqa: BLE001
            _TEMPLATE_ATTRS[cls] = None
    return _TEMPLATE_ATTRS[cls]


def _value_clone(x, _depth=0):
    """Like _clone, but an instance of a state class keeps only the attributes
    its constructor sets."""
    cls = type(x)
    if cls.__module__.startswith("chmpy") and hasattr(x, "__dict__") and _depth < 12:
        keep = _constructor_attrs(cls)
        new = cls.__new__(cls)
        for k, v in x.__dict__.items():
            # (the text an operation was read with is data, not a cache: see normal.state_norm)
            if keep is None or k in keep or (k == "_string_code" and cls.__name__ == "SymmetryOperation"):
                new.__dict__[k] = _value_clone(v, _depth + 1)
        return new
    if isinstance(x, list):
        return [_value_clone(v, _depth + 1) for v in x]
    return _clone(x, _depth)


def rebuild_state(h, stats=None):
    """(unit cell, space group, asymmetric unit) for the reference crystal:
    the same *values* as the handle's, in objects that come out of the
    library's own constructors wherever that is possible bit for bit, and that
    never carry caches lazily attached to the handle's state objects."""
    from chmpy.crystal import AsymmetricUnit, SpaceGroup, UnitCell

    uc0, sg0, au0 = h.unit_cell, h.space_group, h.asymmetric_unit
    # unit cell: through the constructor, then the exact numbers of the handle
    try:
        uc = UnitCell(np.array(uc0.direct, dtype=np.float64, copy=True))
        for k in ("direct", "inverse", "lengths", "angles"):
            setattr(uc, k, _clone(getattr(uc0, k)))
        uc._set_cell_type()
        if set(vars(uc)) != set(k for k in vars(uc0) if k in vars(uc)) or any(
            k not in vars(uc) for k in vars(uc0) if not k.startswith("_")
        ):
            raise ValueError("attribute sets differ")
    except Exception:  # noqa: BLE001
        uc = _value_clone(uc0)
        if stats is not None:
            stats["reference_unit_cell_by_clone"] += 1
    # space group: SpaceGroup(number, choice) when that is the same group
    sg = None
    try:
        cand = SpaceGroup(sg0.international_tables_number, choice=sg0.choice) if sg0.choice else SpaceGroup(sg0.international_tables_number)
        same_ops = ([int(s.integer_code) for s in cand.symmetry_operations] == [int(s.integer_code) for s in sg0.symmetry_operations]
                    and [str(s) for s in cand.symmetry_operations] == [str(s) for s in sg0.symmetry_operations])
        # the group IS its operation list; symbol, centering, point group ... are
        # data derived from it and come from the constructor, not from the handle
        if same_ops:
            sg = cand
    except Exception:  # noqa: BLE001
        sg = None
    if sg is None:
        sg = _value_clone(sg0)
        if stats is not None:
            stats["reference_space_group_by_clone"] += 1
    # asymmetric unit: through the constructor
    try:
        # what the constructor derives itself from elements/positions/labels
        # is derived again from the current values; only what a caller supplied
        # is supplied again
        derived = set(AsymmetricUnit(list(au0.elements), np.array(au0.positions, copy=True),
                                     labels=np.array(au0.labels, copy=True)).properties)  # fmt: skip
        au = AsymmetricUnit(
            list(au0.elements),
            np.array(au0.positions, copy=True),
            labels=np.array(au0.labels, copy=True),
            **{k: _clone(v) for k, v in au0.properties.items() if k not in derived},
        )
        if not np.array_equal(np.asarray(au.labels), np.asarray(au0.labels)) or set(vars(au)) - set(vars(au0)):
            raise ValueError("constructor changed the data")
    except Exception:  # noqa: BLE001
        au = _value_clone(au0)
        if stats is not None:
            stats["reference_asymmetric_unit_by_clone"] += 1
    return uc, sg, au


def _cif_digest(c):
    # everything kept in the crystal's properties dictionary (stored CIF data,
    # name, anything an operation may have parked there)
    return digest(norm(c.properties))


class _Strict:
    """Process-wide settings of the *caller* that turn conditions the library
    normally shrugs off into exceptions raised in the middle of a call:
    warnings as errors (`-W error`) or numpy floating-point errors raised
    (`np.seterr(all="raise")`). In force during library calls only."""

    def __init__(self, mode):
        self.mode = mode
        self.cm = None

    def __enter__(self):
        if self.mode == "warnings":
            self.cm = warnings.catch_warnings()
            self.cm.__enter__()
            warnings.simplefilter("error")
        elif self.mode == "fperr":
            self.cm = np.errstate(all="raise")
            self.cm.__enter__()

    def __exit__(self, *exc):
        if self.cm is not None:
            self.cm.__exit__(*exc)
        return False


def outcome(fn, c, A, ctx, reader=None):
    try:
        with _Strict(A.get("strict")):
            value = fn(c, A, ctx)
            if reader is not None:
                value = reader(value)
    except O.Unsupported:
        raise
    except Exception as e:  # noqa: BLE001 - a raised call is a legal outcome
        return ("raised", type(e).__name__)
    return ("ok", norm(value))


def _without_labels(n):
    """Normal form without the lazily added asym_mol_idx annotation."""
    if isinstance(n, dict):
        if "__mol__" in n:
            n = dict(n, props={k: v for k, v in n["props"].items() if k != "asym_mol_idx"})
        return {k: _without_labels(v) for k, v in n.items()}
    if isinstance(n, list):
        return [_without_labels(v) for v in n]
    return n


def outcome_digest(o):
    return o[0] + ":" + (o[1] if o[0] == "raised" else digest(o[1]))


def outcomes_equal(a, b):
    if a[0] != b[0]:
        return False
    if a[0] == "raised":
        return a[1] == b[1]
    return same(a[1], b[1])


def compute_reference(req):
    """Runs in a pristine grandchild (see isolate.RefServer)."""
    uc, sg, asym, titl, op, A, refdir, box = req
    fn = O.ALL_QUERIES[op][0] if op in O.ALL_QUERIES else O.RAISERS[op]
    FS.install()
    os.makedirs(os.path.join(refdir, "sub"), exist_ok=True)  # inside the run's private tmpfs directory
    return outcome(fn, Crystal(uc, sg, asym, titl=titl), A,
                   {"dir": refdir, "box": box, "cif_text": box.pop("__cif_text__", False)}, O.READERS.get(op))


class _FormattingSink(logging.Handler):
    """Log handler that formats every record (so `%s` arguments are really
    converted, as with any real handler) and keeps only a count."""

    def __init__(self):
        super().__init__(logging.DEBUG)
        self.records = 0

    def emit(self, record):
        record.getMessage()
        self.records += 1


class Sim:
    def __init__(self, source_spec, args, deep_fork_check=True, ref_mode="inproc", ids="real"):
        if ids == "recycled":
            # deterministic, adversarial id() for the library's objects (this
            # process is a child forked for this one history)
            from . import idseam

            idseam.install()
        self.ids = ids
        self.thread_pools = {}
        FS.install()
        FS.reset()
        INJECTOR.reset()
        self.ref_mode = ref_mode
        self.ref_server = None
        if ref_mode == "isolated":
            # forked before this process touches the library for this run
            self.ref_server = RefServer(compute_reference)
        self.source_spec = source_spec
        self.A = args
        self.log_sink = None
        if args.get("log_debug"):
            # the caller's process has debug logging switched on for the
            # library (part of the environment, like the working directory);
            # records are formatted, as a real handler would
            self.log_sink = _FormattingSink()
            lg = logging.getLogger("chmpy")
            lg.addHandler(self.log_sink)
            lg.setLevel(logging.DEBUG)
            self._log_disabled = logging.root.manager.disable  # the harness silences logging globally
            logging.disable(logging.NOTSET)
        try:
            self.world = [sources.build(source_spec, fs_dir=FS.dir("src"))]
        except BaseException:
            self.close()
            raise
        self.initial_digest = state_digest(self.world[0])
        self.titl0 = [self.world[0].titl]
        self.kw = [False]  # "keyword" crystals: see ops.KW_QUERIES
        self.held = [[]]  # answers handed out under deferred inspection
        self.box = [{}]  # objects the handle's caller keeps and passes back in (e.g. a molecule)
        # was the handle born with stored CIF data (then its CIF text legitimately carries extra items)?
        self.cif_loaded = ["cif_data" in self.world[0].properties]
        self.cif_group = [None]  # handles that share one stored CIF dictionary by the caller's doing
        # state-changing calls applied to the handle since it was loaded from the run's source
        # (None: the handle does not descend from a plain load of the source)
        self.mut_log = [[]]
        self.repeat = [{}]
        self.last_mut = [None]
        self.last_raise = [None]
        self.events = []
        self.stats = Counter()
        if self.log_sink is not None:
            self.stats["runs_with_library_debug_logging_on"] += 1
        if args.get("strict"):
            self.stats["env:" + args["strict"]] += 1
        self.stats["args:" + str(args.get("arg_style") or "plain")] += 1
        self.transitions = set()
        self.nontrivial_checks = 0
        self.armed = [False]  # handle has seen a successful state change with memo/cif_data present
        self.deep_fork_check = deep_fork_check
        self.n_steps = 0
        self.src_class = sources.source_class(source_spec)
        self._log(-1, 0, "source", "ok:" + state_digest(self.world[0]))

    def _ctx(self, hi):
        """Where this handle's caller works and what objects the caller holds."""
        d = FS.dir("shared") if self.A.get("shared_dir") else FS.dir("h%d" % hi)
        return {"dir": d, "box": self.box[hi], "cif_text": not self.cif_loaded[hi]}

    def _box_digest(self, hi):
        """Argument objects the caller keeps (lists, arrays): the library must leave them alone."""
        return digest(norm({k: v for k, v in self.box[hi].items() if k != "mol"}))

    def _ref_box(self, hi):
        """The reference's caller holds equal objects rebuilt by value (never
        the used side's objects themselves, nor anything cached on them)."""
        return {k: _value_clone(v) for k, v in self.box[hi].items()}

    def _in_thread(self, k, thunk):
        """Run `thunk` on caller thread k (0 = this thread). Strictly one call
        after another: the hand-over between threads is sequential."""
        if not k:
            return thunk()
        import concurrent.futures as cf

        pool = self.thread_pools.get(k)
        if pool is None:
            pool = self.thread_pools[k] = cf.ThreadPoolExecutor(max_workers=1, thread_name_prefix="caller%d" % k)
        self.stats["calls_on_other_caller_threads"] += 1
        return pool.submit(thunk).result()

    def close(self):
        for pool in self.thread_pools.values():
            pool.shutdown(wait=True)
        self.thread_pools = {}
        if self.ref_server is not None:
            self.ref_server.close()
            self.ref_server = None
        if getattr(self, "log_sink", None) is not None:
            lg = logging.getLogger("chmpy")
            lg.removeHandler(self.log_sink)
            lg.setLevel(logging.NOTSET)
            logging.disable(self._log_disabled)
            self.log_sink = None
        FS.cleanup()

    def reference(self, pre, op, fn):
        """Outcome of the same call on the reference model: a crystal freshly
        constructed from (copies of) the cell, space group and asymmetric unit."""
        uc, sg, asym, titl, box = pre
        if self.ref_server is not None:
            try:
                return self.ref_server.ask((uc, sg, asym, titl, op, self.A, FS.dir("refiso", str(self.n_steps)), box))
            except Unpicklable:
                # the state objects cannot travel to another process (then a
                # Crystal cannot be pickled either): in-process reference
                self.stats["isolated_reference_fallback_unpicklable"] += 1
            except ChildFailure as e:
                raise HarnessError(str(e))
        # a directory of its own per reference query: a cache keyed by file
        # name must not be able to serve the reference an older file
        return outcome(fn, Crystal(uc, sg, asym, titl=titl), self.A,
                       {"dir": FS.dir("ref", str(self.n_steps)), "box": box, "cif_text": box.pop("__cif_text__", False)},
                       O.READERS.get(op))

    # ----------------------------------------------------------------- logging
    def _log(self, i, hi, op, out):
        h = self.world[hi] if hi < len(self.world) else None
        self.events.append(
            "%d|%d|%s|%s|%s|%s"
            % (i, hi, op, out, memo_mask(h) if h is not None else "", state_digest(h) if h is not None else "")
        )

    def _after(self, hi):
        """Last state change on this handle, else the last call that raised."""
        return self.last_mut[hi] or self.last_raise[hi]

    def fingerprint(self):
        return hashlib.sha256("\n".join(self.events).encode()).hexdigest()[:20]

    def _abstract(self, hi, op):
        h = self.world[hi]
        self.transitions.add(
            (self.src_class, str(h.space_group.choice), memo_mask(h), len(self.world), op)
        )

    # ------------------------------------------------------------------- steps
    def resolve(self, st):
        return st["h"] % len(self.world)

    def step(self, st):
        """Execute one explicit step; returns feedback for the generator.
        Raises Violation when a property clause fails."""
        i = self.n_steps
        self.n_steps += 1
        hi = self.resolve(st)
        op = st["op"]
        self._abstract(hi, op)
        before_mask = memo_mask(self.world[hi])
        fb = {"op": op, "h": hi, "new_memo": False, "changed": False, "raised": None}
        # the proviso: a crystal's queries are always issued with the same
        # arguments. Keyword-argument queries only go to keyword crystals, and
        # those never get a default-argument query that builds the bond graph
        # (such a step - e.g. after the minimiser redirected it - is skipped).
        # Within one memo lifetime (between two state changes) a keyword
        # crystal is asked either keyword queries or default-argument consumers
        # of the bond graph, never both (the memo ignores arguments - that is
        # what the proviso is about); a state change starts a new lifetime.
        if hi < len(self.kw):
            mode = self.kw[hi]  # False | "none" | "kw" | "default"
            skip = False
            if op in O.KW_QUERIES:
                skip = not mode or mode == "default"
                if not skip:
                    self.kw[hi] = "kw"
            elif mode and op not in O.KW_SAFE and (
                    op in O.ALL_QUERIES or op in O.RAISERS or op in O.MUTATORS or op in O.DERIVES):
                if op in O.KW_DEFAULT_CONSUMERS:
                    skip = mode == "kw"
                    if not skip:
                        self.kw[hi] = "default"
                elif op not in O.KW_MUTATORS:
                    skip = True
            if skip:
                self.stats["skipped_not_applicable_to_handle"] += 1
                self._log(i, hi, op, "skipped:n/a")
                return fb
        if op == "cif_twin":
            self._cif_twin(i, hi)
            return fb
        if op in O.ALL_QUERIES or op in O.RAISERS:
            fn = O.ALL_QUERIES[op][0] if op in O.ALL_QUERIES else O.RAISERS[op]
            a = self._check_query(i, hi, op, fn, inject=st.get("inject"), defer=bool(st.get("defer")),
                                  thread=int(st.get("thread") or 0))
            fb["raised"] = a[1] if a[0] == "raised" else None
        elif op in O.MUTATORS:
            self._mutate(i, hi, op, fb, inject=st.get("inject"), thread=int(st.get("thread") or 0))
        elif op in O.FORKS or op in ("reload", "stranger", "stranger_kw", "other", "heavy", "sibling", "derive_cifdata"):
            self._fork(i, hi, op)
        elif op in O.DERIVES:
            self._derive(i, hi, op)
        elif op == "drop":
            self._drop(i, hi)
        elif op == "inspect":
            self._inspect(i, hi)
        elif op == "wfail":
            self._wfail(i, hi, st)
        else:
            raise HarnessError("unknown op %r" % (op,))
        fb["new_memo"] = hi < len(self.world) and memo_mask(self.world[hi]) != before_mask
        return fb

    def _props_digest(self, j, hi):
        o = self.world[j]
        if hi is not None and self.cif_group[j] is not None and self.cif_group[j] == self.cif_group[hi]:
            # the caller made these two crystals share one CIF dictionary: an
            # export of either legitimately refreshes it
            return digest(norm({k: v for k, v in o.properties.items() if k != "cif_data"}))
        return _cif_digest(o)

    def _others(self, hi):
        out = []
        for j, o in enumerate(self.world):
            if j != hi:
                out.append((j, state_digest(o), (memo_digest(o) + self._props_digest(j, hi)) if self.deep_fork_check else ""))
        self._acting = hi
        return out

    def _check_others(self, i, hi, op, others):
        for j, sd, md in others:
            o = self.world[j]
            if state_digest(o) != sd or (self.deep_fork_check and memo_digest(o) + self._props_digest(j, hi) != md):
                raise Violation(
                    "FORK_INTERFERENCE", i, op, hi,
                    {"other_handle": j, "what": "state" if state_digest(o) != sd else "memo or stored cif_data"},
                )  # fmt: skip

    def _call_and_hold(self, i, hi, op, fn, pre, S, mask, others, thread=0):
        """Deferred inspection: the call is made now, its answer is only read
        (normalised) at a later `inspect` step - an answer that was handed out
        must not change afterwards, whatever happens to the crystal. Returns
        None when the call raised (then it is judged at once as usual)."""
        h = self.world[hi]
        try:
            def call():
                with _Strict(self.A.get("strict")):  # the same caller environment as in outcome()
                    return fn(h, self.A, self._ctx(hi))

            raw = self._in_thread(thread, call)
        except O.Unsupported:
            raise
        except Exception:  # noqa: BLE001
            return None
        b = self.reference(pre, op, fn)
        self.stats["checked_deferred"] += 1
        self._log(i, hi, op + "~held", "ok")
        if b[0] != "ok":
            raise Violation("EXCEPTION_MISMATCH", i, op, hi, {"memo_mask": mask, "observed": "ok:(held)",
                                                              "reference": outcome_digest(b), "after": self._after(hi)})
        if state_digest(h) != S:
            raise Violation("QUERY_MUTATED_STATE", i, op, hi, {"memo_mask": mask})
        self.held[hi].append((i, op, raw, b))
        self._check_others(i, hi, op, others)
        return ("ok", None)

    def _cif_twin(self, i, hi):
        """A crystal born from a CIF legitimately writes items a freshly
        constructed crystal does not have, so its CIF *text* cannot be compared
        with the fresh crystal's. Its counterpart without a query history is a
        twin: loaded from the same source and taken through the same
        state-changing calls only. The two texts must be identical."""
        h = self.world[hi]
        if self.mut_log[hi] is None or not self.cif_loaded[hi] or self.cif_group[hi] is not None:
            self._log(i, hi, "cif_twin", "skipped:n/a")
            return
        S = state_digest(h)
        others = self._others(hi)
        try:
            with _Strict(self.A.get("strict")):
                a = ("ok", h.to_cif_string())
        except Exception as e:  # noqa: BLE001
            a = ("raised", type(e).__name__)
        try:
            twin = sources.build(self.source_spec, fs_dir=FS.dir("twin", str(i)))
        except sources.SourceError:
            self._log(i, hi, "cif_twin", "skipped:source")
            return
        for m in self.mut_log[hi]:
            try:
                with _Strict(self.A.get("strict")):
                    O.MUTATORS[m](twin, self.A, {"dir": FS.dir("twin", str(i)), "box": {}})
            except Exception:  # noqa: BLE001 - the same call raised on the handle (or not: then the states differ)
                pass
        if state_digest(twin) != S:
            self.stats["cif_twin:state_mismatch_not_judged"] += 1
            self._log(i, hi, "cif_twin", "skipped:state")
            return
        try:
            with _Strict(self.A.get("strict")):
                b = ("ok", twin.to_cif_string())
        except Exception as e:  # noqa: BLE001
            b = ("raised", type(e).__name__)
        self.stats["checked"] += 1
        self.stats["q:cif_twin"] += 1
        if self.armed[hi]:
            self.nontrivial_checks += 1
        self._log(i, hi, "cif_twin", a[0] + ":" + digest(a[1]))
        if a != b:
            detail = {"what": "the CIF text differs from that of a crystal loaded from the same source and taken through the same state changes only",
                      "observed": a[0] + ":" + digest(a[1]), "reference": b[0] + ":" + digest(b[1]), "after": self._after(hi)}
            if a[0] == b[0] == "ok":
                la, lb = a[1].splitlines(), b[1].splitlines()
                for k in range(max(len(la), len(lb))):
                    x, y = (la[k] if k < len(la) else "<end>"), (lb[k] if k < len(lb) else "<end>")
                    if x != y:
                        detail["first_difference"] = "line %d: %r vs %r" % (k + 1, x[:80], y[:80])
                        break
            raise Violation("STALE_ANSWER" if a[0] == b[0] else "EXCEPTION_MISMATCH", i, "cif_twin", hi, detail)
        if state_digest(h) != S:
            raise Violation("QUERY_MUTATED_STATE", i, "cif_twin", hi, {})
        self._check_others(i, hi, "cif_twin", others)

    def _inspect(self, i, hi):
        """Read every answer this handle handed out under deferred inspection."""
        pending, self.held[hi] = self.held[hi], []
        for i0, op, raw, b in pending:
            try:
                reader = O.READERS.get(op)
                a = ("ok", norm(reader(raw) if reader else raw))
            except Exception as e:  # noqa: BLE001 - reading the answer raised
                a = ("raised", type(e).__name__)
            self.stats["inspected_later"] += 1
            if not outcomes_equal(a, b):
                detail = {"what": "the answer handed out at step %d reads differently %d steps later" % (i0, i - i0),
                          "observed": outcome_digest(a), "reference": outcome_digest(b), "after": self._after(hi)}
                if a[0] == b[0] == "ok":
                    detail["first_difference"] = first_difference(a[1], b[1])
                raise Violation("STALE_ANSWER", i, op, hi, detail)
        self._log(i, hi, "inspect", "%d" % len(pending))

    def _check_query(self, i, hi, op, fn, inject=None, defer=False, thread=0):
        h = self.world[hi]
        S = state_digest(h)
        others = self._others(hi)
        mask = memo_mask(h)
        # the reference is built from the state *before* the call
        # (the name is the one the handle had when it entered the world: no
        # operation of the API renames a crystal)
        pre = rebuild_state(h, self.stats) + (self.titl0[hi], dict(self._ref_box(hi), __cif_text__=not self.cif_loaded[hi]))
        box0, keys0 = self._box_digest(hi), set(self.box[hi])
        if defer and not inject:
            held = self._call_and_hold(i, hi, op, fn, pre, S, mask, others, thread)
            if held is not None:
                return held
        if inject:
            INJECTOR.arm(inject["target"], inject["nth"], inject["exc"])
        try:
            a = self._in_thread(thread, lambda: outcome(fn, h, self.A, self._ctx(hi), O.READERS.get(op)))
        finally:
            fired = INJECTOR.disarm() if inject else False
        if inject:
            self.stats["inject:" + ("fired" if fired else "not_reached")] += 1
            if fired:
                self.stats["inject_fired:" + inject["target"]] += 1
                self.last_raise[hi] = op + "!injected"
                self._log(i, hi, op + "~inject", outcome_digest(a))
                # the faulted call itself has no reference; the crystal must
                # simply keep answering like a fresh one afterwards
                if state_digest(h) != S:
                    raise Violation("QUERY_MUTATED_STATE", i, op, hi, {"memo_mask": mask, "injected": True})
                self._check_others(i, hi, op, others)
                return a
        b = self.reference(pre, op, fn)
        self.stats["checked"] += 1
        self.stats["q:" + op] += 1
        if a[0] == "raised":
            self.stats["raised:%s:%s" % (op, a[1])] += 1
        elif a[1] is None:
            self.stats["none:" + op] += 1  # an answer that says nothing (reach probe: should stay at zero)
        if mask[:4] != "0000" or mask[4] == "c":
            self.stats["checked_with_memo"] += 1
        if self.armed[hi]:
            self.nontrivial_checks += 1
        self._log(i, hi, op, outcome_digest(a))
        if a[0] == "ok" and b[0] == "ok" and digest(_without_labels(a[1])) != digest(_without_labels(b[1])) and outcomes_equal(a, b):
            # equal within tolerance but not bit for bit (never seen so far)
            self.stats["inexact_equal_pairs"] += 1
            self.stats["inexact:%s:%s" % (op, self.ref_mode)] += 1
        if not outcomes_equal(a, b):
            cls = "EXCEPTION_MISMATCH" if a[0] != b[0] or a[0] == "raised" else "STALE_ANSWER"
            detail = {
                "memo_mask": mask,
                "observed": outcome_digest(a),
                "reference": outcome_digest(b),
                "after": self._after(hi),
            }
            if a[0] == b[0] == "ok":
                detail["first_difference"] = first_difference(a[1], b[1])
            raise Violation(cls, i, op, hi, detail)
        if state_digest(h) != S:
            raise Violation("QUERY_MUTATED_STATE", i, op, hi, {"memo_mask": mask})
        key = (op, S)
        if self._box_digest(hi) != box0 and not set(self.box[hi]) - keys0:
            raise Violation("QUERY_MUTATED_STATE", i, op, hi, {"what": "the call edited an argument object of its caller"})
        prev = self.repeat[hi].get(key)
        if prev is not None and not outcomes_equal(prev, a):
            raise Violation(
                "REPEAT_DIFFERS", i, op, hi,
                {"memo_mask": mask, "first": outcome_digest(prev), "now": outcome_digest(a),
                 "after": self._after(hi)},
            )  # fmt: skip
        self.repeat[hi][key] = a
        self._check_others(i, hi, op, others)
        if a[0] == "raised":
            self.last_raise[hi] = op + "!" + a[1]
        return a

    def _mutate(self, i, hi, op, fb, inject=None, thread=0):
        h = self.world[hi]
        S = state_digest(h)
        mask = memo_mask(h)
        others = self._others(hi)
        if inject:
            INJECTOR.arm(inject["target"], inject["nth"], inject["exc"])
        try:
            a = self._in_thread(thread, lambda: outcome(O.MUTATORS[op], h, self.A, self._ctx(hi)))
        finally:
            fired = INJECTOR.disarm() if inject else False
        if inject:
            self.stats["inject:" + ("fired" if fired else "not_reached")] += 1
        changed = state_digest(h) != S
        if changed and self.kw[hi]:
            self.kw[hi] = "none"  # a new memo lifetime
        # the twin of a CIF-born crystal (see _cif_twin) is taken through the
        # calls that changed the state; a single call that left the state as it
        # was (asking for the setting the crystal is in already) is not one
        if self.mut_log[hi] is not None and (changed or op.startswith("flip")):
            self.mut_log[hi].append(op)
        fb["changed"] = changed
        fb["raised"] = a[1] if a[0] == "raised" else None
        tag = "ok" if a[0] == "ok" else a[1]
        self.stats["mut:%s:%s" % (op, tag)] += 1
        if changed:
            self.stats["mut_changed_state"] += 1
            if mask != "0000-":
                self.stats["mut_changed_state_with_memo"] += 1
                self.armed[hi] = True
        if changed:
            self.last_mut[hi] = op
            self.last_raise[hi] = None
        if a[0] == "raised":
            self.last_raise[hi] = op + "!" + a[1]
        self._log(i, hi, op, tag + (":changed" if changed else ""))
        self._check_others(i, hi, op, others)

    def _fork(self, i, hi, op):
        if len(self.world) >= MAX_HANDLES:
            self.stats["fork:skipped_full"] += 1
            self._log(i, hi, op, "skipped")
            return
        h = self.world[hi]
        S = state_digest(h)
        others = self._others(hi)
        try:
            if op == "reload":
                # a second, independent load of the same source (same file /
                # same text): it must be the crystal the run started from,
                # whatever happened to other crystal objects in between
                try:
                    new = sources.build(self.source_spec, fs_dir=FS.dir("src%d" % len(self.world)))
                except sources.SourceError as e:
                    raise Violation("EXCEPTION_MISMATCH", i, op, hi, {
                        "what": "loading the same source again failed: %s" % e, "after": self._after(hi)})
                if state_digest(new) != self.initial_digest:
                    raise Violation("STALE_ANSWER", i, op, hi, {
                        "what": "loading the same source again gave a different crystal",
                        "after": self._after(hi)})
                self.world.append(new)
                self.titl0.append(new.titl)
                self.kw.append(False)
                self.held.append([])
                self.box.append({})
                self.cif_loaded.append("cif_data" in new.properties)
                self.cif_group.append(None)
                self.mut_log.append([] if op == "reload" else None)
                self.repeat.append({})
                self.last_mut.append(None)
                self.last_raise.append(None)
                self.armed.append(False)
                self.stats["fork:reload"] += 1
                self._log(i, hi, op, "-> h%d" % (len(self.world) - 1))
                self._check_others(i, hi, op, others)
                return
            if op == "heavy":
                # an unrelated small crystal with much heavier elements than
                # anything else in this process (C-Br, C-I, C-Cl bonds near the
                # upper end of their bonding windows): whatever the library
                # learned from the lighter crystals must not colour its answers
                from chmpy.core.element import Element
                from chmpy.crystal import AsymmetricUnit, SpaceGroup, UnitCell

                uc = UnitCell.from_lengths_and_angles([9.0, 9.5, 10.0], np.radians([90.0, 90.0, 90.0]))
                cart = np.array([[1.0, 1.0, 1.0], [2.93, 1.0, 1.0], [1.0, 3.14, 1.0], [1.0, 1.0, 2.77], [0.37, 0.37, 0.37]])
                au = AsymmetricUnit([Element[x] for x in ("C", "Br", "I", "Cl", "H")], uc.to_fractional(cart))
                new = Crystal(uc, SpaceGroup(1), au)
                self.world.append(new)
                self.titl0.append(new.titl)
                self.kw.append(False)
                self.held.append([])
                self.box.append({})
                self.cif_loaded.append(False)
                self.cif_group.append(None)
                self.mut_log.append(None)
                self.repeat.append({})
                self.last_mut.append(None)
                self.last_raise.append(None)
                self.armed.append(False)
                self.stats["fork:heavy"] += 1
                self._log(i, hi, op, "-> h%d" % (len(self.world) - 1))
                self._check_others(i, hi, op, others)
                return
            if op == "other":
                # a DIFFERENT crystal that shares name, formula, cell and group
                # number with the source: its ordinary-CIF / standard-setting
                # twin if the source is an unusual one, else the same sites in P1
                spec = dict(self.source_spec)
                if spec.get("kind") != "synthetic":
                    spec = None
                elif spec.get("quirks"):
                    spec["quirks"] = None
                else:
                    spec["sg"] = [1, ""]
                if spec is None:
                    self._log(i, hi, op, "skipped")
                    return
                try:
                    new = sources.build(spec, fs_dir=FS.dir("src%d" % len(self.world)))
                except sources.SourceError:
                    self._log(i, hi, op, "skipped:source")
                    return
                self.world.append(new)
                self.titl0.append(new.titl)
                self.kw.append(False)
                self.held.append([])
                self.box.append({})
                self.cif_loaded.append("cif_data" in new.properties)
                self.cif_group.append(None)
                self.mut_log.append([] if op == "reload" else None)
                self.repeat.append({})
                self.last_mut.append(None)
                self.last_raise.append(None)
                self.armed.append(False)
                self.stats["fork:other"] += 1
                self._log(i, hi, op, "-> h%d" % (len(self.world) - 1))
                self._check_others(i, hi, op, others)
                return
            if op == "sibling":
                # the caller builds another crystal on the SAME UnitCell and
                # SpaceGroup objects (legal use of the public constructor),
                # with an asymmetric unit of its own
                from chmpy.crystal import AsymmetricUnit

                au0 = h.asymmetric_unit
                au = AsymmetricUnit(
                    list(au0.elements),
                    np.array(au0.positions, dtype=float) + np.array([0.0211, 0.0057, -0.0143]),
                    labels=np.array(au0.labels, copy=True),
                    **{k: _clone(v) for k, v in au0.properties.items()},
                )
                new = Crystal(h.unit_cell, h.space_group, au, titl=h.titl)
                self.world.append(new)
                self.titl0.append(new.titl)
                self.kw.append(False)
                self.held.append([])
                self.box.append({})
                self.cif_loaded.append(False)
                self.cif_group.append(None)
                self.mut_log.append(None)
                self.repeat.append({})
                self.last_mut.append(None)
                self.last_raise.append(None)
                self.armed.append(False)
                self.stats["fork:sibling"] += 1
                self._log(i, hi, op, "-> h%d" % (len(self.world) - 1))
                self._check_others(i, hi, op, others)
                return
            if op == "derive_cifdata":
                # the caller feeds one crystal's CIF dictionary to the reader
                # again: both crystals now hold the same dictionary object
                if "cif_data" not in h.properties:
                    self._log(i, hi, op, "skipped")
                    return
                try:
                    with _Strict(self.A.get("strict")):
                        (name, data), = h.to_cif_data().items()
                        new = Crystal.from_cif_data(data, titl=name)
                except Exception as e:  # noqa: BLE001 - the caller's call raised: no second crystal
                    self.last_raise[hi] = op + "!" + type(e).__name__
                    self._log(i, hi, op, "raised:" + type(e).__name__)
                    return
                group = self.cif_group[hi] if self.cif_group[hi] is not None else i
                self.cif_group[hi] = group
                self.world.append(new)
                self.titl0.append(new.titl)
                self.kw.append(False)
                self.held.append([])
                self.box.append({})
                self.cif_loaded.append(True)
                self.cif_group.append(group)
                self.mut_log.append(None)
                self.repeat.append({})
                self.last_mut.append(None)
                self.last_raise.append(None)
                self.armed.append(False)
                self.stats["fork:derive_cifdata"] += 1
                self._log(i, hi, op, "-> h%d" % (len(self.world) - 1))
                return
            if op in ("stranger", "stranger_kw"):
                # a different crystal that looks alike: same group, elements,
                # labels and name, shifted sites - anything cached under a
                # key the two share would now be served to the wrong one
                base = sources.build(self.source_spec, fs_dir=FS.dir("src%d" % len(self.world)))
                uc, sg, au = rebuild_state(base)
                au.positions = np.array(au.positions, dtype=float) + np.array([0.0137, -0.0071, 0.0093])
                new = Crystal(uc, sg, au, titl=base.titl)
                self.world.append(new)
                self.titl0.append(new.titl)
                self.kw.append("none" if op == "stranger_kw" else False)
                self.held.append([])
                self.box.append({})
                self.cif_loaded.append("cif_data" in new.properties)
                self.cif_group.append(None)
                self.mut_log.append([] if op == "reload" else None)
                self.repeat.append({})
                self.last_mut.append(None)
                self.last_raise.append(None)
                self.armed.append(False)
                self.stats["fork:" + op] += 1
                self._log(i, hi, op, "-> h%d" % (len(self.world) - 1))
                self._check_others(i, hi, op, others)
                return
            with _Strict(self.A.get("strict")):
                new = O.FORKS[op](h)
        except O.Unsupported as e:
            self.stats["fork:unsupported:" + op] += 1
            self._log(i, hi, op, "unsupported:" + str(e))
            return
        except Exception as e:  # noqa: BLE001 - the copy operation itself raised (e.g. a warning turned into an error)
            if not self.A.get("strict"):
                raise
            self.stats["fork:raised:%s:%s" % (op, type(e).__name__)] += 1
            self.last_raise[hi] = op + "!" + type(e).__name__
            self._log(i, hi, op, "raised:" + type(e).__name__)
            if state_digest(h) != S:
                raise Violation("QUERY_MUTATED_STATE", i, op, hi, {"what": "a copy operation that raised changed its source"})
            return
        if state_digest(h) != S:
            raise Violation("QUERY_MUTATED_STATE", i, op, hi, {"what": "fork changed its source"})
        if state_digest(new) != S:
            raise Violation("STALE_ANSWER", i, op, hi, {"what": "fork differs from its source",
                                                        "after": self._after(hi)})  # fmt: skip
        self.world.append(new)
        self.titl0.append(self.titl0[hi])
        self.kw.append(self.kw[hi])
        self.held.append([])
        self.box.append(dict(self.box[hi]))  # the caller passes the SAME kept objects to the copy
        self.cif_loaded.append(self.cif_loaded[hi])
        self.cif_group.append(None)
        self.mut_log.append(None if self.mut_log[hi] is None else list(self.mut_log[hi]))
        self.repeat.append(dict(self.repeat[hi]))
        self.last_mut.append(self.last_mut[hi])
        self.last_raise.append(self.last_raise[hi])
        self.armed.append(self.armed[hi])
        self.stats["fork:" + op] += 1
        if memo_mask(h) != "0000-":
            self.stats["fork_with_memo"] += 1
        self._log(i, hi, op, "-> h%d" % (len(self.world) - 1))
        self._check_others(i, hi, op, others)

    def _drop(self, i, hi):
        """The newest handle goes out of scope and is garbage collected: what
        is created afterwards may reuse its address (caches keyed by id(),
        weak references to it die)."""
        import gc

        if len(self.world) < 2:
            self._log(i, hi, "drop", "skipped")
            return
        # (full digests: freeing a handle exports nothing, so even a CIF
        # dictionary it shared with another handle must stay as it is)
        others = [(j, state_digest(o), (memo_digest(o) + _cif_digest(o)) if self.deep_fork_check else "")
                  for j, o in enumerate(self.world[:-1])]
        for lst in (self.world, self.titl0, self.kw, self.held, self.box, self.cif_loaded, self.cif_group, self.mut_log,
                    self.repeat, self.last_mut, self.last_raise, self.armed):
            lst.pop()
        gc.collect()
        self.stats["fork:drop"] += 1
        self._log(i, 0, "drop", "-> %d handles" % len(self.world))
        for j, sd, md in others:
            o = self.world[j]
            if state_digest(o) != sd or (self.deep_fork_check and memo_digest(o) + _cif_digest(o) != md):
                raise Violation("FORK_INTERFERENCE", i, "drop", j, {"other_handle": j, "what": "freeing a handle changed another one"})

    def _derive(self, i, hi, op):
        """A crystal computed from handle `hi` joins the world as a handle of
        its own; what happens to it later must never reach back into `hi`
        (aliasing through arrays shared with the parent's memos)."""
        if len(self.world) >= MAX_HANDLES:
            self.stats["fork:skipped_full"] += 1
            self._log(i, hi, op, "skipped")
            return
        h = self.world[hi]
        S = state_digest(h)
        others = self._others(hi)
        try:
            with _Strict(self.A.get("strict")):  # every library call of the run sees the caller's environment
                new = O.DERIVES[op](h)
        except Exception as e:  # noqa: BLE001 - e.g. no molecules; not judged here
            self.stats["derive_raised:%s:%s" % (op, type(e).__name__)] += 1
            self.last_raise[hi] = op + "!" + type(e).__name__
            self._log(i, hi, op, "raised:" + type(e).__name__)
            if state_digest(h) != S:
                raise Violation("QUERY_MUTATED_STATE", i, op, hi, {"what": "failed derivation changed state"})
            self._check_others(i, hi, op, others)
            return
        if not isinstance(new, Crystal):
            self._log(i, hi, op, "not-a-crystal")
            return
        if state_digest(h) != S:
            raise Violation("QUERY_MUTATED_STATE", i, op, hi, {"what": "derivation changed its source"})
        self.world.append(new)
        self.titl0.append(new.titl)
        self.kw.append(False)
        self.held.append([])
        self.box.append({})
        self.cif_loaded.append("cif_data" in new.properties)
        self.cif_group.append(None)
        self.mut_log.append(None)
        self.repeat.append({})
        self.last_mut.append(None)
        self.last_raise.append(None)
        self.armed.append(False)
        self.stats["fork:" + op] += 1
        self._log(i, hi, op, "-> h%d" % (len(self.world) - 1))
        self._check_others(i, hi, op, others)

    def _wfail(self, i, hi, st):
        h = self.world[hi]
        S = state_digest(h)
        others = self._others(hi)
        path = "%s/%s" % (FS.dir("h%d" % hi), O.WRITE_FAULT_TARGETS[st["fmt"]])
        if st["when"] == "read":
            # a good file first, then the read of it fails
            try:
                h.save(path)
            except Exception:  # noqa: BLE001 - writer limitation, nothing to inject into
                pass
        FS.arm(st["when"], st["errno"])
        try:
            if st["when"] == "read":
                Crystal.load(path)
            else:
                h.save(path)
            result = "no_error"
        except OSError as e:
            result = "oserror:%d" % e.errno
        except Exception as e:  # noqa: BLE001
            result = "raised:" + type(e).__name__
        finally:
            fired = FS.disarm()
        if fired:
            self.stats["wfail:%s:%s" % (st["when"], st["fmt"])] += 1
            silent = st["when"] in ("lost", "short")
            if (not silent and not result.startswith("oserror")) or (silent and result != "no_error"):
                raise Violation(
                    "EXCEPTION_MISMATCH", i, "wfail", hi,
                    {"what": "injected write error did not surface from save()", "result": result},
                )
        else:
            self.stats["wfail:not_reached"] += 1
        self._log(i, hi, "wfail:%s:%s:%s" % (st["fmt"], st["when"], st["errno"]), result)
        if state_digest(h) != S:
            raise Violation("QUERY_MUTATED_STATE", i, "wfail", hi, {"what": "failed save changed state"})
        self._check_others(i, hi, "wfail", others)
        self.last_raise[hi] = "wfail:" + st["fmt"] + "!"


# --------------------------------------------------------------- whole runs
def run_schedule(schedule, deep_fork_check=True):
    """Execute an explicit schedule. Returns (sim, violation_or_None)."""
    sim = Sim(schedule["source"], schedule["args"], deep_fork_check=deep_fork_check,
              ref_mode=schedule.get("ref", "inproc"), ids=schedule.get("ids", "real"))
    try:
        for st in schedule["steps"]:
            sim.step(st)
    except Violation as v:
        return sim, v
    finally:
        sim.close()
    return sim, None


def _execute_child(schedule, want_attribution):
    try:
        sim, v = run_schedule(schedule)
    except sources.SourceError as e:
        return {"status": "source_failed", "error": str(e), "violation": None}
    out = {"status": "violation" if v is not None else "ok", "violation": None,
           "steps": sim.n_steps, "checked": sim.stats["checked"], "fingerprint": sim.fingerprint()}
    if v is not None:
        out["violation"] = v.to_json()
    return out


def execute(schedule, timeout=300):
    """Run an explicit schedule in a forked child (pristine module state)."""
    try:
        return forked(_execute_child, schedule, False, timeout=timeout)
    except ChildFailure as e:
        raise HarnessError(str(e))


def violation_from_json(vj):
    return Violation(vj["class"], vj["step"], vj["op"], vj["handle"], vj["detail"])


def audit_steps(n_handles, query_names):
    return [{"h": hi, "op": q, "audit": True} for hi in range(n_handles) for q in query_names]


# -------------------------------------------------------------- attribution
def attribute(schedule, v):
    """Which stale carrier explains the violation? In a forked child:
    re-executes the prefix, then removes carriers from a deep copy of the
    handle until the answer is the fresh one. Returns a sorted list of
    carrier names ([] = none found)."""
    try:
        return forked(_attribute_child, schedule, v.to_json(), timeout=600)
    except ChildFailure as e:
        raise HarnessError(str(e))


def _attribute_child(schedule, vj):
    v = violation_from_json(vj)
    if v.cls not in ("STALE_ANSWER", "EXCEPTION_MISMATCH", "REPEAT_DIFFERS"):
        return []
    if (v.op not in O.ALL_QUERIES and v.op not in O.RAISERS) or v.op == "cif_twin":
        return []
    fn = O.ALL_QUERIES[v.op][0] if v.op in O.ALL_QUERIES else O.RAISERS[v.op]
    prefix = dict(schedule, steps=schedule["steps"][: v.step], ref="inproc")
    sim, early = run_schedule(prefix)
    if early is not None:
        return []
    h = sim.world[v.handle % len(sim.world)]
    names = carriers_present(h)
    hi = v.handle % len(sim.world)
    ref = Crystal(*rebuild_state(h), titl=sim.titl0[hi])
    b = outcome(fn, ref, sim.A, {"dir": FS.dir("ref"), "box": sim._ref_box(hi)})
    for size in range(1, len(names) + 1):
        for subset in itertools.combinations(names, size):
            trial = copy.deepcopy(h)
            for k in subset:
                if k == "properties.cif_data":
                    trial.properties.pop("cif_data", None)
                else:
                    trial.__dict__.pop(k, None)
            a = outcome(fn, trial, sim.A, {"dir": FS.dir("attr"), "box": dict(sim.box[hi])})
            if outcomes_equal(a, b):
                return list(subset)
    return []


def signature(v, carriers):
    after = (v.detail or {}).get("after") or ""
    after = after.split("!")[0] + ("!" if "!" in after else "")
    return {"class": v.cls, "carriers": sorted(carriers), "after": after}


def schedule_key(schedule):
    """Stable identity of a history (source class + args + operation sequence)."""
    blob = json.dumps(
        [schedule["source"], schedule["args"], [[s["h"], s["op"], s.get("fmt"), s.get("when")] for s in schedule["steps"]]],
        sort_keys=True,
    )
    return hashlib.sha256(blob.encode()).hexdigest()[:16]
