"""The allocator seam behind `id()`.

`id()` values are unique among objects that are alive at the same time and may
be reused once an object is gone; which address CPython hands out next depends
on everything the process has allocated before, i.e. it is a source of
nondeterminism the simulator has to own. In runs that enable this seam the
builtin `id` is replaced - for instances of the library's classes only - by a
deterministic and *adversarial* allocator: identifiers are small integers
handed out on first use, and an identifier returns to the top of its class's
free list the moment its object dies, so the next object of that class that is
asked for its id gets the most recently freed one (what a size-class allocator
does with addresses, made certain instead of likely). This is within Python's contract for
`id()`; code that is only correct if identifiers are never reused (a cache or
a freshness stamp keyed by id) fails here deterministically instead of once in
a while.
"""
import builtins
import weakref

_real_id = builtins.id
_map = {}  # real address -> (simulated id, weak reference)
_free = {}  # class -> stack of freed simulated ids (most recent on top)
_next = [1]
_installed = [False]
stats = {"assigned": 0, "recycled": 0}


def _release(key, sid, cls):
    _map.pop(key, None)
    _free.setdefault(cls, []).append(sid)


def sim_id(obj):
    mod = getattr(type(obj), "__module__", None)
    if not isinstance(mod, str) or not mod.startswith("chmpy"):
        return _real_id(obj)
    key = _real_id(obj)
    entry = _map.get(key)
    if entry is not None:
        return entry[0]
    cls = type(obj)
    pool = _free.get(cls)
    if pool:
        # like a size-class allocator: the slot a dead object of this class
        # left behind is the first one to be handed out again
        sid = pool.pop()
        stats["recycled"] += 1
        fresh = False
    else:
        sid = _next[0]
        _next[0] += 1
        fresh = True
    try:
        ref = weakref.ref(obj, lambda r, key=key, sid=sid, cls=cls: _release(key, sid, cls))
    except TypeError:  # not weak-referenceable: keep the real address
        if fresh:
            _next[0] -= 1
        else:
            pool.append(sid)
        return key
    _map[key] = (sid, ref)
    stats["assigned"] += 1
    return sid


def install():
    if not _installed[0]:
        builtins.id = sim_id
        _installed[0] = True


def installed():
    return _installed[0]
