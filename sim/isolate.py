"""Process isolation.

* `forked(fn, *args)` runs one simulated history in a child forked from a
  process that has never executed library code: every history starts from
  the pristine post-import module state, so nothing a previous history left in
  module-level objects (caches, registries, class attributes) can leak into it
  and the execution does not depend on which worker ran what before.
* `RefServer` answers reference queries, each in its own grandchild forked
  from a pristine zygote: the reference model shares no module-level state
  with the crystal under test (nor with earlier reference computations), so a
  badly keyed global cache cannot make both sides wrong in the same way.
"""
import os
import pickle
import signal
import struct
import sys
import traceback


class ChildFailure(Exception):
    pass


class Unpicklable(Exception):
    """The request cannot be sent to another process."""


def _write_all(fd, data):
    view = memoryview(data)
    while view:
        n = os.write(fd, view)
        view = view[n:]


def _read_exact(fd, n):
    chunks = []
    while n > 0:
        b = os.read(fd, min(n, 1 << 20))
        if not b:
            return None
        chunks.append(b)
        n -= len(b)
    return b"".join(chunks)


def send_msg(fd, obj):
    data = pickle.dumps(obj, pickle.HIGHEST_PROTOCOL)
    _write_all(fd, struct.pack("<Q", len(data)) + data)


def recv_msg(fd):
    head = _read_exact(fd, 8)
    if head is None:
        return None
    (n,) = struct.unpack("<Q", head)
    data = _read_exact(fd, n)
    if data is None:
        return None
    return pickle.loads(data)


def forked(fn, *args, timeout=180):
    """Run fn(*args) in a forked child; returns its (picklable) result."""
    r, w = os.pipe()
    sys.stdout.flush()
    sys.stderr.flush()
    pid = os.fork()
    if pid == 0:
        code = 0
        try:
            os.close(r)
            # SIGALRM's default action ends this child; no watchdog thread
            # (a thread would make the forks below unsafe)
            signal.alarm(int(timeout))
            # some parsers of the library print to stdout; results travel by pipe
            sys.stdout = open(os.devnull, "w")
            try:
                msg = ("ok", fn(*args))
            except BaseException:  # noqa: BLE001 - reported to the parent
                msg = ("error", traceback.format_exc())
            send_msg(w, msg)
        except BaseException:  # noqa: BLE001
            code = 3
        finally:
            try:  # this child's private tmpfs directory, if one is still there
                from .simfs import FS

                FS.cleanup()
            except BaseException:  # noqa: BLE001
                pass
            os._exit(code)
    os.close(w)
    try:
        msg = recv_msg(r)
    finally:
        os.close(r)
        _, status = os.waitpid(pid, 0)
    if msg is None:
        raise ChildFailure("child process died without an answer (wait status %d; timeout %ds?)" % (status, timeout))
    if msg[0] == "error":
        raise ChildFailure(msg[1])
    return msg[1]


class RefServer:
    """Zygote forked before the run touches the library; serves reference
    computations, one pristine grandchild per request."""

    def __init__(self, compute):
        req_r, req_w = os.pipe()
        res_r, res_w = os.pipe()
        sys.stdout.flush()
        sys.stderr.flush()
        pid = os.fork()
        if pid == 0:
            try:
                os.close(req_w)
                os.close(res_r)
                self._serve(req_r, res_w, compute)
            finally:
                os._exit(0)
        os.close(req_r)
        os.close(res_w)
        self.pid, self.req_w, self.res_r = pid, req_w, res_r
        self.requests = 0

    @staticmethod
    def _serve(req_r, res_w, compute):
        while True:
            req = recv_msg(req_r)
            if req is None:
                return
            cpid = os.fork()
            if cpid == 0:
                code = 0
                try:
                    os.close(req_r)
                    signal.alarm(120)
                    try:
                        msg = ("ok", compute(req))
                    except BaseException:  # noqa: BLE001
                        msg = ("error", traceback.format_exc())
                    send_msg(res_w, msg)
                except BaseException:  # noqa: BLE001
                    code = 3
                finally:
                    os._exit(code)
            _, status = os.waitpid(cpid, 0)
            if status != 0:
                send_msg(res_w, ("error", "reference child died with wait status %d" % status))

    def ask(self, req):
        self.requests += 1
        try:
            data = pickle.dumps(req, pickle.HIGHEST_PROTOCOL)
        except Exception as e:  # noqa: BLE001 - state objects that cannot be pickled
            raise Unpicklable("%s: %s" % (type(e).__name__, e))
        _write_all(self.req_w, struct.pack("<Q", len(data)) + data)
        msg = recv_msg(self.res_r)
        if msg is None:
            raise ChildFailure("reference server died")
        if msg[0] == "error":
            raise ChildFailure("reference computation failed in the simulator:\n" + msg[1])
        return msg[1]

    def close(self):
        if self.pid is None:
            return
        try:
            os.close(self.req_w)
            os.close(self.res_r)
        except OSError:
            pass
        try:
            os.waitpid(self.pid, 0)
        except ChildProcessError:
            pass
        self.pid = None
