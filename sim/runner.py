"""Batch execution across worker processes, violation handling (minimise,
replay-confirm, known-findings match), self-tests and evidence."""
import concurrent.futures as cf
import faulthandler
import glob
import hashlib
import json
import logging
import multiprocessing
import os
import subprocess
import sys
import time
import traceback
import warnings
from collections import Counter

PROPERTY = "C14"
ROOT = os.path.dirname(os.path.dirname(os.path.abspath(__file__)))
REPLAYS = os.environ.get("CHMPY_VERIF_REPLAYS") or os.path.join(ROOT, "replays")
FINDINGS = os.path.join(ROOT, "findings")
EVIDENCE = os.path.join(ROOT, "evidence", "C14.json")
KNOWN = os.environ.get("CHMPY_VERIF_KNOWN") or os.path.join(ROOT, "known_findings.json")
CHECK = os.path.join(ROOT, "checks", "c14.py")
RUN_TIMEOUT = 120  # seconds per simulated run before the worker is killed
CHUNK = 20
ENGINE = "sim-1"


def quiet():
    logging.disable(logging.CRITICAL)
    warnings.filterwarnings("ignore")
    sys.unraisablehook = lambda *a: None


PREIMPORT = [
    "chmpy", "chmpy.crystal", "chmpy.core.dimer", "chmpy.ext.charges", "chmpy.ext.vasp", "chmpy.fmt.shelx",
    "chmpy.fmt.vasp", "chmpy.fmt.cif", "chmpy.fmt.gulp", "chmpy.fmt.crystal17", "chmpy.fmt.xtb", "chmpy.shape", "chmpy.surface", "chmpy.util.mesh", "chmpy.util.color", "chmpy.subgraphs", "trimesh", "chmpy.crystal.sfac", "scipy.sparse.csgraph",
    "scipy.spatial.distance", "sim.gen", "sim.minimise",
]  # fmt: skip


def preimport():
    """Import (not run) everything a history may import lazily, so that forked
    children do not pay for it and all start from the same module state."""
    import importlib

    for name in PREIMPORT:
        try:
            importlib.import_module(name)
        except Exception:  # noqa: BLE001 - optional module missing in a mutated tree
            pass


BASE_STATE = {}


def take_base_state():
    """Process-wide / module-level state of this (pristine) process."""
    from . import globalstate

    BASE_STATE.clear()
    BASE_STATE.update(globalstate.snapshot())


def _worker_init():
    quiet()
    preimport()
    take_base_state()
    faulthandler.enable()
    # compiled chmpy kernels print "ZeroDivisionError: float division" through
    # PyErr_Print for atoms far from any density; tracebacks of harness errors
    # travel back to the parent as strings, so nothing is lost here
    sys.stderr = open(os.devnull, "w")


def n_workers(requested=None):
    return requested or min(16, os.cpu_count() or 1)


# ------------------------------------------------------------------ one run
def run_one(stratum, seed, index):
    from . import gen

    if stratum == "random":
        return gen.random_run(seed, index)
    if stratum == "template":
        return gen.template_run(seed, index)
    if stratum == "slowpairs":
        return gen.slowpair_run(seed, index)
    if stratum == "fork3":
        return gen.fork3_run(seed, index)
    if stratum == "big":
        return gen.big_run(seed, index)
    if stratum == "kwpairs":
        return gen.kwpair_run(seed, index)
    if stratum == "sharedfile":
        return gen.sharedfile_run(seed, index)
    if stratum == "inject":
        return gen.inject_template_run(seed, index)
    if stratum == "injectall":
        # every fault point: (source, query, seam) x call position 1..INJECT_ALL_CAP
        base, k = divmod(index, gen.INJECT_ALL_CAP)
        return gen.inject_template_run(seed, base * len(gen.INJECT_NTH), stratum="injectall", nth_override=k + 1)
    if stratum.startswith("sweepcore"):
        return gen.sweep_run(int(stratum[9:]), index, which="core")
    if stratum.startswith("sweep"):
        return gen.sweep_run(int(stratum[5:]), index)
    raise ValueError(stratum)


def run_summary(stratum, seed, index, want_fp):
    """Executed in a forked child: one simulated history and its summary."""
    from .engine import schedule_key
    from .simfs import FS

    t0 = time.time()
    r = run_one(stratum, seed, index)
    out = {"wall": time.time() - t0, "status": r.status, "stats": Counter(), "fs": dict(FS.counts), "steps": 0, "transitions": [],
           "source": None, "length": 0, "faulted": False, "nontrivial": None, "fp": None, "sample": None,
           "violation": None, "ref": r.schedule.get("ref", "inproc"), "ids": r.schedule.get("ids", "real")}  # fmt: skip
    if r.sim is None:
        out["stats"]["source_failed:" + (r.error or "")[:50]] += 1
        return out
    sim = r.sim
    out["steps"] = sim.n_steps
    out["stats"] = sim.stats
    out["transitions"] = sorted(sim.transitions)
    out["source"] = sim.src_class
    body = [s for s in r.schedule["steps"] if not s.get("audit")]
    out["length"] = min(len(body), 41)
    out["faulted"] = any(
        s["op"] == "wfail" or "inject" in s or s["op"] in ("toX", "bad_save", "bad_group", "bad_load") for s in body
    )
    if sim.nontrivial_checks > 0:
        out["nontrivial"] = schedule_key(r.schedule)
    if want_fp:
        out["fp"] = sim.fingerprint()
    if sim.nontrivial_checks > 0 and len(body) <= 8:
        out["sample"] = {
            "stratum": stratum, "index": index, "source": sim.src_class, "reference": out["ref"],
            "ops": ["h%d.%s" % (s["h"], _op_label(s)) for s in body],
            "audit_queries": len(r.schedule["steps"]) - len(body),
            "checked_after_state_change": sim.nontrivial_checks,
        }  # fmt: skip
    if r.violation is not None:
        out["violation"] = {"stratum": stratum, "index": index, "schedule": r.schedule,
                            "violation": r.violation.to_json()}  # fmt: skip
    # did this history touch process-wide or module-level state? then the
    # in-process reference may have been wrong in the same way: re-judge
    out["state_changed"] = []
    if BASE_STATE:
        from . import globalstate

        out["state_changed"] = globalstate.diff(BASE_STATE, globalstate.snapshot())[:12]
        if out["state_changed"] and r.violation is None and out["ref"] != "isolated":
            out["escalate"] = dict(r.schedule, ref="isolated")
    return out


def run_chunk(task):
    """Runs in a pool worker that never executes library code itself: every
    history is executed in a child forked from this pristine process."""
    from .isolate import ChildFailure, forked

    stratum, seed, indices, want_fp = task
    out = {
        "stratum": stratum, "runs": 0, "steps": 0, "status": Counter(), "stats": Counter(),
        "violations": [], "harness": [], "fps": {}, "nontrivial": [], "transitions": set(),
        "samples": [], "lengths": Counter(), "faulted_runs": 0, "sources": Counter(),
        "fs": Counter(), "isolated_ref_runs": 0,
    }  # fmt: skip
    for index in indices:
        try:
            r = forked(run_summary, stratum, seed, index, want_fp, timeout=RUN_TIMEOUT)
        except ChildFailure as e:
            if "wait status 14" not in str(e):
                out["harness"].append([stratum, index, str(e)])
                continue
            # the watchdog fired: a slow but legitimate history (e.g. a huge
            # slab after a half-done switch) gets one more go with a long
            # limit; a real hang still ends as a harness error
            try:
                r = forked(run_summary, stratum, seed, index, want_fp, timeout=RUN_TIMEOUT * 6)
                out["stats"]["runs_that_needed_the_long_time_limit"] += 1
            except ChildFailure as e2:
                out["harness"].append([stratum, index, str(e2)])
                continue
        out["runs"] += 1
        out["stats"]["cpu_s:" + stratum] += r["wall"]
        out["status"][r["status"]] += 1
        out["fs"].update(r["fs"])
        out["stats"].update(r["stats"])
        out["steps"] += r["steps"]
        out["transitions"].update(tuple(t) for t in r["transitions"])
        if r["source"]:
            out["sources"][r["source"]] += 1
            out["lengths"][r["length"]] += 1
        out["faulted_runs"] += 1 if r["faulted"] else 0
        out["isolated_ref_runs"] += 1 if r["ref"] == "isolated" else 0
        out["stats"]["runs_with_recycled_ids"] += 1 if r.get("ids") == "recycled" else 0
        if r["nontrivial"]:
            out["nontrivial"].append(r["nontrivial"])
        if r["fp"]:
            out["fps"]["%s:%d" % (stratum, index)] = r["fp"]
        if r["sample"] and len(out["samples"]) < 2:
            out["samples"].append(r["sample"])
        if r["violation"]:
            out["violations"].append(r["violation"])
        for k in r.get("state_changed", []):
            out["stats"]["state_changed:" + k] += 1
        if r.get("state_changed"):
            out["stats"]["runs_that_changed_process_or_module_state"] += 1
        if r.get("escalate"):
            from .engine import _execute_child

            out["stats"]["runs_rejudged_with_isolated_reference"] += 1
            try:
                res = forked(_execute_child, r["escalate"], False, timeout=RUN_TIMEOUT)
            except ChildFailure as e:
                out["harness"].append([stratum, index, "re-judging with the isolated reference failed: " + str(e)])
                continue
            if res.get("violation"):
                out["violations"].append({"stratum": stratum, "index": index, "schedule": r["escalate"],
                                          "violation": res["violation"]})  # fmt: skip
    return out


def _op_label(s):
    if s["op"] == "wfail":
        return "wfail(%s,%s,%s)" % (s["fmt"], s["when"], s["errno"])
    if "inject" in s:
        return "%s~%s#%d" % (s["op"], s["inject"]["target"], s["inject"]["nth"])
    return s["op"]


class Batch:
    """Aggregated result of many chunks."""

    def __init__(self):
        self.runs = 0
        self.steps = 0
        self.status = Counter()
        self.stats = Counter()
        self.violations = []
        self.harness = []
        self.fps = {}
        self.nontrivial = set()
        self.transitions = set()
        self.samples = []
        self.lengths = Counter()
        self.faulted_runs = 0
        self.sources = Counter()
        self.fs = Counter()
        self.per_stratum = Counter()
        self.isolated_ref_runs = 0

    def add(self, o):
        self.isolated_ref_runs += o.get("isolated_ref_runs", 0)
        self.runs += o["runs"]
        self.steps += o["steps"]
        self.status.update(o["status"])
        self.stats.update(o["stats"])
        self.violations.extend(o["violations"])
        self.harness.extend(o["harness"])
        self.fps.update(o["fps"])
        self.nontrivial.update(o["nontrivial"])
        self.transitions.update(o["transitions"])
        have = Counter(x["stratum"] for x in self.samples)
        for x in o["samples"]:
            if have[x["stratum"]] < 2:
                self.samples.append(x)
                have[x["stratum"]] += 1
        self.lengths.update(o["lengths"])
        self.faulted_runs += o["faulted_runs"]
        self.sources.update(o["sources"])
        self.fs.update(o["fs"])
        self.per_stratum[o["stratum"]] += o["runs"]


class PoolFailure(Exception):
    pass


def make_pool(workers):
    ctx = multiprocessing.get_context("fork")
    return cf.ProcessPoolExecutor(max_workers=workers, mp_context=ctx, initializer=_worker_init)


def run_tasks(pool, tasks, batch, deadline=None, max_violating_chunks=None):
    """tasks: iterable of chunk tasks (may be a generator; consumed lazily)."""
    tasks = iter(tasks)
    inflight = set()
    workers = pool._max_workers
    exhausted = False
    while True:
        while not exhausted and len(inflight) < 2 * workers:
            if deadline is not None and time.time() > deadline:
                exhausted = True
                break
            try:
                t = next(tasks)
            except StopIteration:
                exhausted = True
                break
            inflight.add(pool.submit(run_chunk, t))
        if not inflight:
            break
        done, inflight = cf.wait(inflight, timeout=RUN_TIMEOUT * CHUNK + 60, return_when=cf.FIRST_COMPLETED)
        if not done:
            raise PoolFailure("no chunk finished within the wall-clock limit")
        for f in done:
            try:
                batch.add(f.result())
            except cf.process.BrokenProcessPool as e:
                raise PoolFailure("a worker died (timeout or crash): %s" % e)
        if max_violating_chunks is not None and len(batch.violations) >= max_violating_chunks:
            exhausted = True  # enough failing histories to report; stop feeding


def interleave(lists):
    """Round-robin merge, proportional to list lengths (an early stop still
    covers every stratum)."""
    out, total = [], sum(len(x) for x in lists)
    pos = [0] * len(lists)
    for _ in range(total):
        j = min((j for j in range(len(lists)) if pos[j] < len(lists[j])),
                key=lambda j: (pos[j] + 1) / len(lists[j]))
        out.append(lists[j][pos[j]])
        pos[j] += 1
    return out


def chunks(stratum, seed, indices, want_fp=False, size=CHUNK):
    indices = list(indices)
    for i in range(0, len(indices), size):
        yield (stratum, seed, indices[i : i + size], want_fp)


# ---------------------------------------------------------- violations
def load_known():
    if not os.path.exists(KNOWN):
        return []
    with open(KNOWN) as f:
        return json.load(f).get("findings", [])


def known_match(sig, known):
    for k in known:
        if k.get("status") != "known" or k.get("property") != PROPERTY:
            continue
        ks = k["signature"]
        if (
            sig["class"] in ks["classes"]
            and set(sig["carriers"]) <= set(ks["carriers"])
            and (sig["carriers"] or not ks["carriers"])
            and sig["after"] in ks["after"]
        ):
            return k
    return None


def minimise_task(item):
    from .engine import violation_from_json
    from .minimise import minimise

    v = violation_from_json(item["violation"])
    schedule, v2, sig, n0 = minimise(item["schedule"], v)
    return {"stratum": item["stratum"], "index": item["index"], "schedule": schedule,
            "violation": v2.to_json(), "signature": sig, "minimised_from_steps": n0}  # fmt: skip


def dump_replay(doc):
    """One key per line, one step per line: readable and diffable."""
    lines = []
    for k, v in doc.items():
        if k == "steps":
            body = ",\n".join("  " + json.dumps(st, sort_keys=True) for st in v)
            lines.append(' "steps": [\n%s\n ]' % body)
        else:
            lines.append(" %s: %s" % (json.dumps(k), json.dumps(v, sort_keys=True)))
    return "{\n" + ",\n".join(lines) + "\n}\n"


def write_replay(seed, m):
    os.makedirs(REPLAYS, exist_ok=True)
    path = os.path.join(REPLAYS, "C14-%d-%s-%d%s.json" % (seed, m["stratum"], m["index"], "-O" if sys.flags.optimize else ""))
    doc = {
        "property": PROPERTY, "verif_seed": seed, "stratum": m["stratum"], "run_index": m["index"],
        "python_optimize": int(sys.flags.optimize),
        "engine": ENGINE, "ref": m["schedule"].get("ref", "inproc"), "ids": m["schedule"].get("ids", "real"),
        "source": m["schedule"]["source"], "args": m["schedule"]["args"],
        "steps": m["schedule"]["steps"], "violation": m["violation"], "signature": m["signature"],
        "minimised_from_steps": m["minimised_from_steps"],
    }  # fmt: skip
    with open(path, "w") as f:
        f.write(dump_replay(doc))
    return path


def confirm_replay(path, want=None):
    """Re-execute the replay file in a fresh interpreter; True iff it fails the same way."""
    env = dict(os.environ)
    env.pop("PYTHONOPTIMIZE", None)  # the replay file says which interpreter mode it needs
    env.pop("CHMPY_VERIF_OPTIMIZE", None)
    p = subprocess.run([sys.executable, CHECK, "--replay", path], capture_output=True, text=True, env=env, timeout=600)
    ok = p.returncode == 1 and "REPRODUCED exact" in p.stdout
    if not ok and p.returncode == 1 and want is not None:
        # the same clause fails at the same step of the same operation but with
        # other values: the library's answer itself is not a function of the
        # history (e.g. it reads uninitialised memory, as finding F5 did) -
        # the violation is confirmed, its digests simply cannot repeat
        ok = ("REPRODUCED different class=%s step=%d op=%s " % (want["class"], want["step"], want["op"])) in p.stdout
    return ok, p.stdout + p.stderr


def handle_violations(seed, batch, pool):
    """Returns (violation_lines, known_lines, harness_msgs)."""
    if not batch.violations:
        return [], [], []
    groups = {}
    for it in batch.violations:
        d = it["violation"]["detail"] or {}
        after = (d.get("after") or "").split("!")[0]
        groups.setdefault((it["violation"]["class"], after, it["violation"]["op"] if not after else ""), []).append(it)
    picked = []
    for key in sorted(groups):
        g = sorted(groups[key], key=lambda it: (it["schedule"].get("ids", "real") != "recycled",
                                               len(it["schedule"]["steps"]), it["stratum"], it["index"]))
        picked.extend(g[:2])
    picked = picked[:16]
    minimised, unreproducible = [], []
    futs = [pool.submit(minimise_task, it) for it in picked]
    for it, f in zip(picked, futs):
        try:
            minimised.append(f.result(timeout=1800))
        except Exception:  # noqa: BLE001
            # e.g. a failure that depends on which addresses the allocator
            # reuses (real id() values): reported only if nothing else confirms
            unreproducible.append("minimiser failed on %s:%d (ids=%s)\n%s" % (
                it["stratum"], it["index"], it["schedule"].get("ids", "real"), traceback.format_exc()))
    known = load_known()
    seen, vlines, klines, harness = set(), [], [], []
    for m in sorted(minimised, key=lambda m: (len(m["schedule"]["steps"]), m["stratum"], m["index"])):
        sk = json.dumps(m["signature"], sort_keys=True)
        if sk in seen:
            continue
        seen.add(sk)
        k = known_match(m["signature"], known)
        if k is not None:
            line = "KNOWN-FINDING: property=%s %s: %s" % (PROPERTY, k["id"], k["what"])
            if line not in klines:
                klines.append(line)
            continue
        path = write_replay(seed, m)
        ok, outp = confirm_replay(path, m["violation"])
        if not ok:
            harness.append("violation %s did not replay exactly (simulator not deterministic?)\n%s" % (path, outp))
            continue
        vlines.append((path, m))
    if not vlines and not klines:
        harness += unreproducible
    return vlines, klines, harness


def replay_main(path):
    quiet()
    preimport()
    from .engine import attribute, execute, signature, violation_from_json

    with open(path) as f:
        doc = json.load(f)
    schedule = {"source": doc["source"], "args": doc["args"], "steps": doc["steps"], "ref": doc.get("ref", "inproc"),
                "ids": doc.get("ids", "real")}
    res = execute(schedule)
    if res["violation"] is None:
        print("NOT-REPRODUCED property=%s replay=%s (history ran clean: %s steps, %s checked queries)"
              % (PROPERTY, path, res.get("steps"), res.get("checked")))  # fmt: skip
        return 0
    want = doc.get("violation") or {}
    got = res["violation"]
    v = violation_from_json(got)
    exact = (
        got["class"] == want.get("class")
        and got["step"] == want.get("step")
        and (got["detail"] or {}).get("observed") == (want.get("detail") or {}).get("observed")
        and (got["detail"] or {}).get("reference") == (want.get("detail") or {}).get("reference")
    )
    sig = signature(v, attribute(schedule, v))
    print("REPRODUCED %s class=%s step=%d op=%s signature=%s" % ("exact" if exact else "different", v.cls, v.step, v.op, json.dumps(sig, sort_keys=True)))
    print("detail: " + json.dumps(v.detail, sort_keys=True))
    print("VIOLATION property=%s replay=%s" % (PROPERTY, path))
    return 1


# ------------------------------------------------------------ self tests
def parse_fp_spec(spec):
    out = []
    for part in spec.split(","):
        bits = part.split(":")
        stratum, start, count = bits[0], int(bits[1]), int(bits[2])
        stride = int(bits[3]) if len(bits) > 3 else 1
        out.append((stratum, [start + i * stride for i in range(count)]))
    return out


def fingerprints_main(seed, spec, workers):
    quiet()
    batch = Batch()
    with make_pool(n_workers(workers)) as pool:
        tasks = []
        for stratum, indices in parse_fp_spec(spec):
            tasks.extend(chunks(stratum, seed, indices, want_fp=True, size=4))
        run_tasks(pool, tasks, batch)
    if batch.harness:
        sys.stderr.write(batch.harness[0][2])
        return 2
    print(json.dumps(batch.fps, sort_keys=True))
    return 0


def slice_main(seed, spec, workers):
    """A part of the batch executed by an interpreter of its own (used for the
    histories that run without assert statements, `python -O`): runs the
    listed histories, minimises and confirms violations like the main batch
    and prints a one-line summary for the parent's evidence."""
    quiet()
    preimport()
    take_base_state()
    batch = Batch()
    harness = []
    vlines, klines = [], []
    t0 = time.time()
    try:
        with make_pool(n_workers(workers)) as pool:
            tasks = interleave([list(chunks(st, seed, idx)) for st, idx in parse_fp_spec(spec)])
            run_tasks(pool, tasks, batch, max_violating_chunks=4 if os.environ.get("VERIF_STOP_EARLY") == "1" else 20)
            vlines, klines, harness = handle_violations(seed, batch, pool)
    except PoolFailure as e:
        harness.append(str(e))
    for hitem in batch.harness:
        harness.append("run %s:%d raised inside the simulator:\n%s" % tuple(hitem))
    for line in klines:
        print(line)
    for path, m in vlines:
        print("violation: class=%s signature=%s steps=%s" % (
            m["violation"]["class"], json.dumps(m["signature"], sort_keys=True),
            [_op_label(s) for s in m["schedule"]["steps"]]))  # fmt: skip
        print("VIOLATION property=%s replay=%s" % (PROPERTY, path))
    print("SLICE-SUMMARY " + json.dumps({
        "python_optimize": int(sys.flags.optimize), "runs": batch.runs, "steps": batch.steps,
        "checked_query_pairs": batch.stats["checked"], "runs_by_stratum": dict(batch.per_stratum),
        "histories_judged_after_a_state_change": len(batch.nontrivial), "wall_s": round(time.time() - t0, 1),
        "violations": len(vlines), "spec": spec,
    }, sort_keys=True))  # fmt: skip
    if harness and not vlines:
        for hmsg in harness:
            sys.stderr.write("HARNESS-ERROR: %s\n" % hmsg)
        return 2
    return 1 if vlines else 0


def start_slice(seed, spec, workers=3, optimize=True):
    env = dict(os.environ)
    env["VERIF_SEED"] = str(seed)
    if optimize:
        env["CHMPY_VERIF_OPTIMIZE"] = "1"
    return subprocess.Popen(
        [sys.executable, CHECK, "--slice", spec, "--workers", str(workers), "--no-evidence"],
        stdout=subprocess.PIPE, stderr=subprocess.PIPE, text=True, env=env,
    )  # fmt: skip


def collect_slice(proc, timeout):
    """-> (exit code, violation/known lines to pass on, summary dict, stderr tail)"""
    try:
        out, err = proc.communicate(timeout=timeout)
    except subprocess.TimeoutExpired:
        proc.kill()
        return 2, [], None, "slice timed out"
    lines = [l for l in out.splitlines() if l.startswith(("violation:", "VIOLATION ", "KNOWN-FINDING:"))]
    summary = None
    for l in out.splitlines():
        if l.startswith("SLICE-SUMMARY "):
            summary = json.loads(l[len("SLICE-SUMMARY "):])
    return proc.returncode, lines, summary, err[-2000:]


def start_cross_check(seed, spec, hashseed="12345", workers=3):
    """Start re-executing the given run indices in a fresh interpreter under
    another PYTHONHASHSEED and worker count (runs alongside the main batch)."""
    env = dict(os.environ)
    env["CHMPY_VERIF_HASHSEED"] = hashseed
    env["PYTHONHASHSEED"] = hashseed
    env["VERIF_SEED"] = str(seed)
    return subprocess.Popen(
        [sys.executable, CHECK, "--fingerprints", spec, "--workers", str(workers)],
        stdout=subprocess.PIPE, stderr=subprocess.PIPE, text=True, env=env,
    )  # fmt: skip


def cross_check_fingerprints(seed, spec, reference, hashseed="12345", workers=3, proc=None):
    """Returns (n_compared, mismatching keys)."""
    if proc is None:
        proc = start_cross_check(seed, spec, hashseed, workers)
    try:
        out, err = proc.communicate(timeout=3600)
    except subprocess.TimeoutExpired:
        proc.kill()
        raise
    if proc.returncode != 0:
        raise PoolFailure("fingerprint subprocess failed: " + err[-2000:])
    other = json.loads(out.strip().splitlines()[-1])
    common = [k for k in other if k in reference]
    bad = sorted(k for k in common if reference[k] != other[k])
    return len(common), bad


def determinism_main(seed, workers):
    """200 run seeds executed twice: N-worker pool under PYTHONHASHSEED=0 (this
    process) and 1..3-worker pools under two other hash seeds (fresh interpreters)."""
    quiet()
    spec = "random:0:150,template:0:50:47"
    batch = Batch()
    with make_pool(n_workers(workers)) as pool:
        tasks = []
        for stratum, indices in parse_fp_spec(spec):
            tasks.extend(chunks(stratum, seed, indices, want_fp=True, size=5))
        run_tasks(pool, tasks, batch)
    if batch.harness:
        sys.stderr.write(batch.harness[0][2])
        return 2
    total_bad = []
    for hs, w in (("12345", 1), ("987", 3)):
        n, bad = cross_check_fingerprints(seed, spec, batch.fps, hashseed=hs, workers=w)
        print("determinism: %d runs re-executed under PYTHONHASHSEED=%s with %d worker(s): %d mismatches" % (n, hs, w, len(bad)))
        total_bad += bad
    if total_bad:
        print("NON-DETERMINISTIC runs: %s" % total_bad[:10])
        return 2
    return 0


# ------------------------------------------------------------------ main
def inject_applicable_task(si):
    from . import gen
    from .isolate import forked

    return forked(gen.inject_applicable_for_source, si, timeout=RUN_TIMEOUT)


def applicable_inject_templates(pool):
    """Fault-point templates whose seam is actually called by their query."""
    from . import gen

    futs = [pool.submit(inject_applicable_task, si) for si in range(len(gen.INJECT_SOURCES))]
    out = []
    for f in futs:
        out.extend(f.result(timeout=RUN_TIMEOUT + 60))
    return sorted(out)


def quick_plan(seed, args):
    from . import gen

    n_random = args.random_runs if args.random_runs is not None else 800
    # quick: the templates on the 1098-atom bundled file (the expensive ones) are
    # taken in halves that alternate with the seed; thorough runs all of them
    tmpl = [i for i in range(gen.N_TEMPLATES)
            if gen.template_of(i)[3][0] != "file" or (i + seed) % 2 == 0]
    return [
        ("template", tmpl),
        ("inject", list(range(gen.N_INJECT_TEMPLATES))),
        # the ordered pairs of the less common queries likewise (thorough: all)
        ("slowpairs", [i for i in range(gen.N_SLOWPAIRS) if (i + seed) % 2 == 0]),
        ("fork3", list(range(gen.N_FORK3))),
        ("big", list(range(gen.N_BIG))),
        ("kwpairs", list(range(gen.N_KWPAIRS))),
        ("sharedfile", list(range(gen.N_SHAREDFILE))),
        ("random", list(range(n_random))),
    ]


def regression_items():
    """Histories of defects that were repaired: re-executed on every run so a
    regression is reported again (a `fixed:` entry suppresses nothing)."""
    items = []
    for path in sorted(glob.glob(os.path.join(FINDINGS, "*.json"))):
        with open(path) as f:
            doc = json.load(f)
        items.append((path, {"source": doc["source"], "args": doc["args"], "steps": doc["steps"],
                             "ref": doc.get("ref", "inproc"), "ids": doc.get("ids", "real")}))
    return items


def check_main(tier, seed, args):
    quiet()
    preimport()
    take_base_state()
    from .simfs import sweep_stale

    sweep_stale()
    t0 = time.time()
    from . import gen, ops
    from .engine import execute

    workers = n_workers(args.workers)
    batch = Batch()
    harness = []
    # 1. regression histories of repaired defects
    regress_run = 0
    for path, schedule in regression_items():
        res = execute(schedule)
        regress_run += 1
        batch.runs += 1
        batch.steps += res.get("steps", 0)
        batch.stats["checked"] += res.get("checked", 0)
        batch.per_stratum["regression"] += 1
        if res["violation"] is not None:
            batch.violations.append({"stratum": "regression-" + os.path.basename(path)[:-5], "index": 0,
                                     "schedule": schedule, "violation": res["violation"]})  # fmt: skip
    sweep_info = None
    det_info = None
    # determinism cross-check: the same run indices, re-executed in a fresh
    # interpreter under another hash seed and worker count, alongside the batch
    det_spec = ("random:0:40,template:3:24:97,fork3:1:8:41,slowpairs:2:6:53" if tier == "quick"
                else "random:0:120,template:3:60:37,fork3:1:16:23,slowpairs:2:12:31")
    det_proc = start_cross_check(seed, det_spec, hashseed="12345", workers=2 if tier == "quick" else 4)
    # a slice of the systematic and random strata in an interpreter without assert statements (python -O)
    opt_spec = ("template:%d:420:11,random:100000:80,fork3:%d:40:13" % (seed % 11, seed % 13) if tier == "quick"
                else "template:0:%d:1,fork3:0:%d:1,random:100000:3000" % (gen.N_TEMPLATES, gen.N_FORK3))
    opt_proc = None if os.environ.get("VERIF_SKIP_OPT_SLICE") == "1" else start_slice(
        seed, opt_spec, workers=3 if tier == "quick" else 4)
    opt_lines, opt_summary = [], None
    try:
        with make_pool(workers) as pool:
            if tier == "quick":
                plan = quick_plan(seed, args)
                keep = applicable_inject_templates(pool)
                plan = [(st, keep if st == "inject" else idx) for st, idx in plan]
                batch.stats["inject_templates_defined"] = gen.N_INJECT_TEMPLATES
                batch.stats["inject_templates_with_a_live_seam"] = len(keep)
                tasks = interleave([list(chunks(st, seed, idx, want_fp=True)) for st, idx in plan])
                # VERIF_STOP_EARLY (used by tools/run_seeded.py): a handful of failing histories is enough
                run_tasks(pool, tasks, batch, max_violating_chunks=4 if os.environ.get("VERIF_STOP_EARLY") == "1" else 40)
            else:
                sweep_info = thorough_batch(pool, seed, args, batch)
            vlines, klines, h2 = handle_violations(seed, batch, pool)
            harness += h2
    except PoolFailure as e:
        harness.append(str(e))
        vlines, klines = [], []
    for hitem in batch.harness:
        harness.append("run %s:%d raised inside the simulator:\n%s" % tuple(hitem))
    # 2. determinism cross-check on a sample of this batch's runs
    if not harness:
        try:
            ref = {k: v for k, v in batch.fps.items()}
            n, bad = cross_check_fingerprints(seed, det_spec, ref, proc=det_proc)
            det_info = {"runs_reexecuted": n, "mismatches": len(bad), "other_PYTHONHASHSEED": "12345",
                        "other_workers": 2 if tier == "quick" else 4, "this_workers": workers, "spec": det_spec}  # fmt: skip
            if bad:
                harness.append("determinism cross-check failed for runs %s" % bad[:8])
        except (PoolFailure, subprocess.TimeoutExpired, ValueError) as e:
            harness.append("determinism cross-check could not run: %s" % e)
    if det_proc.poll() is None:
        det_proc.kill()
    opt_code = 0
    if opt_proc is not None:
        opt_code, opt_lines, opt_summary, opt_err = collect_slice(opt_proc, 900 if tier == "quick" else 7200)
        if opt_code not in (0, 1) or opt_summary is None:
            harness.append("the python -O slice failed (exit %s): %s" % (opt_code, opt_err))
    wall = time.time() - t0
    batch.opt_summary = opt_summary
    opt_v = [l for l in opt_lines if l.startswith("VIOLATION ")]
    if not args.no_evidence:
        write_evidence(tier, seed, batch, wall, workers, len(vlines) + len(opt_v), klines, det_info, sweep_info, harness, ops.classify_api())
    for line in klines + [l for l in opt_lines if l.startswith("KNOWN-FINDING:") and l not in klines]:
        print(line)
    print("C14 %s: %d runs (%s), %d steps, %d checked used-vs-fresh query pairs, %d distinct histories judged after a state change, %.1fs"
          % (tier, batch.runs, dict(batch.per_stratum), batch.steps, batch.stats["checked"], len(batch.nontrivial), wall))  # fmt: skip
    if harness and not vlines and not opt_v:
        for hmsg in harness:
            sys.stderr.write("HARNESS-ERROR: %s\n" % hmsg)
        return 2
    for hmsg in harness:
        # confirmed violations below were each re-executed in a fresh interpreter and failed identically
        sys.stderr.write("NOTE (harness): %s\n" % hmsg)
    if opt_v:
        print("found in the slice that runs under python -O (no assert statements):")
        for l in opt_lines:
            if not l.startswith("KNOWN-FINDING:"):
                print(l)
        if not vlines:
            return 1
    if vlines:
        for path, m in vlines:
            print("violation: class=%s signature=%s steps=%s" % (
                m["violation"]["class"], json.dumps(m["signature"], sort_keys=True),
                [_op_label(s) for s in m["schedule"]["steps"]]))  # fmt: skip
            print("VIOLATION property=%s replay=%s" % (PROPERTY, path))
        return 1
    return 0


def _gcd(a, b):
    while b:
        a, b = b, a % b
    return a


def thorough_batch(pool, seed, args, batch):
    from . import gen

    budget = args.budget if args.budget is not None else float(os.environ.get("VERIF_BUDGET_S", "1800"))
    t0 = time.time()
    tasks = list(chunks("template", seed, range(gen.N_TEMPLATES), want_fp=True))
    keep = applicable_inject_templates(pool)
    batch.stats["inject_templates_defined"] = gen.N_INJECT_TEMPLATES
    batch.stats["inject_templates_with_a_live_seam"] = len(keep)
    tasks += list(chunks("inject", seed, keep))
    tasks += list(chunks("slowpairs", seed, range(gen.N_SLOWPAIRS), want_fp=True))
    tasks += list(chunks("fork3", seed, range(gen.N_FORK3), want_fp=True))
    tasks += list(chunks("big", seed, range(gen.N_BIG)))
    tasks += list(chunks("kwpairs", seed, range(gen.N_KWPAIRS)))
    tasks += list(chunks("sharedfile", seed, range(gen.N_SHAREDFILE)))
    n_all = (gen.N_INJECT_TEMPLATES // len(gen.INJECT_NTH)) * gen.INJECT_ALL_CAP
    tasks += list(chunks("injectall", seed, range(n_all), size=CHUNK * 4))
    run_tasks(pool, tasks, batch, max_violating_chunks=60)
    # every sequence of length <= 4 over the core alphabet, on each sweep structure
    n_core = gen.sweep_count(4, "core")
    sweep_info = {"core_alphabet": gen.SWEEP_CORE, "core_sequences_per_structure": n_core, "core_runs": 0,
                  "core_complete": False, "structures": len(gen.SWEEP_SOURCES),
                  "wide_alphabet": gen.SWEEP_ALPHABET, "wide_sequences_per_structure": gen.sweep_count(4),
                  "wide_runs": 0, "wide_complete_up_to_length": 0}  # fmt: skip
    before = batch.runs
    if os.environ.get("VERIF_SKIP_CORE_SWEEP") != "1" and len(batch.violations) < 60:
        core_tasks = []
        for start in range(0, n_core, CHUNK * 4):
            for si in range(len(gen.SWEEP_SOURCES)):
                core_tasks.append(("sweepcore%d" % si, seed, list(range(start, min(n_core, start + CHUNK * 4))), False))
        run_tasks(pool, core_tasks, batch, max_violating_chunks=60)
        sweep_info["core_runs"] = batch.runs - before
        sweep_info["core_complete"] = sweep_info["core_runs"] == n_core * len(gen.SWEEP_SOURCES)
    # the wide alphabet: every sequence of length <= 3, then a seeded-stride sample of length 4
    sweep_budget = float(os.environ.get("VERIF_SWEEP_BUDGET_S", str(budget * 0.35)))
    deadline = time.time() + sweep_budget
    before = batch.runs

    def sweep_tasks():
        n3, n4 = gen.sweep_count(3), gen.sweep_count(4)
        # every sequence of length <= 3 first (complete), then the length-4
        # sequences in a seeded stride order (sampled without replacement,
        # spread over the whole index range if the budget ends early)
        order = list(range(n3))
        m = n4 - n3
        stride = 7919 + 2 * (seed % 1000)
        while m % stride == 0 or _gcd(stride, m) != 1:
            stride += 1
        order += [n3 + (j * stride) % m for j in range(m)]
        for start in range(0, len(order), CHUNK * 4):
            for si in range(len(gen.SWEEP_SOURCES)):
                yield ("sweep%d" % si, seed, order[start : start + CHUNK * 4], False)

    if len(batch.violations) < 60:
        run_tasks(pool, sweep_tasks(), batch, deadline=deadline, max_violating_chunks=60)
    sweep_info["wide_runs"] = batch.runs - before
    for k in (1, 2, 3, 4):
        if sweep_info["wide_runs"] >= gen.sweep_count(k) * len(gen.SWEEP_SOURCES):
            sweep_info["wide_complete_up_to_length"] = k
    # seeded random histories for the rest of the budget - and for a quarter
    # of it at least, however long the systematic strata took
    deadline = max(t0 + budget, time.time() + 0.25 * budget)

    def random_tasks():
        start = 0
        while True:
            yield ("random", seed, list(range(start, start + CHUNK)), start < 200)
            start += CHUNK

    if len(batch.violations) < 60:
        run_tasks(pool, random_tasks(), batch, deadline=deadline, max_violating_chunks=60)
    return sweep_info


# -------------------------------------------------------------- evidence
def write_evidence(tier, seed, batch, wall, workers, n_viol, klines, det_info, sweep_info, harness, unclassified):
    s = batch.stats

    def pick(prefix):
        return {k[len(prefix):]: v for k, v in sorted(s.items()) if k.startswith(prefix)}

    faults = {
        "fork_deepcopy": s["fork:deepcopy"],
        "fork_pickle": s["fork:pickle"],
        "second_load_of_same_source": s["fork:reload"],
        "look_alike_crystal_with_shifted_sites": s["fork:stranger"],
        "handle_dropped_and_garbage_collected": s["fork:drop"],
        "different_crystal_sharing_name_cell_and_group_number": s["fork:other"],
        "unrelated_crystal_with_heavier_elements": s["fork:heavy"],
        "look_alike_crystal_queried_with_keyword_arguments": s["fork:stranger_kw"],
        "crystal_built_on_the_same_cell_and_group_objects": s["fork:sibling"],
        "crystal_sharing_the_stored_cif_dictionary": s["fork:derive_cifdata"],
        "steps_skipped_as_not_applicable_to_their_handle": s["skipped_not_applicable_to_handle"],
        "derived_crystals_as_handles": s["fork:derive_P1"] + s["fork:derive_cif"] + s["fork:derive_res"],
        "forks_taken_with_memo_present": s["fork_with_memo"],
        "write_error_before_any_byte": sum(v for k, v in s.items() if k.startswith("wfail:before")),
        "write_error_after_prefix_stored": sum(v for k, v in s.items() if k.startswith("wfail:after")),
        "calls_made_on_other_caller_threads": s["calls_on_other_caller_threads"],
        "write_silently_lost": sum(v for k, v in s.items() if k.startswith("wfail:lost")),
        "write_silently_short": sum(v for k, v in s.items() if k.startswith("wfail:short")),
        "read_error_on_load": sum(v for k, v in s.items() if k.startswith("wfail:read")),
        "write_error_not_reached": s["wfail:not_reached"],
        "injected_failure_inside_query_fired": s["inject:fired"],
        "injected_failure_not_reached": s["inject:not_reached"],
        "injected_failure_by_seam": pick("inject_fired:"),
        "operation_raised_by_query_and_class": pick("raised:"),
        "mutator_outcomes": pick("mut:"),
        "mutator_changed_state": s["mut_changed_state"],
        "mutator_changed_state_with_memo_or_cif_data_present": s["mut_changed_state_with_memo"],
    }
    samples = batch.samples[:14] or [{"note": "no history in this batch was judged after a state change"}]
    doc = {
        "property_id": PROPERTY,
        "tier": tier,
        "seed": seed,
        "level": "exploration",
        "wall_s": round(wall, 2),
        "violations": n_viol,
        "coverage": {
            "evaluations": batch.runs,
            "distinct_nontrivial": len(batch.nontrivial),
            "rule": (
                "one evaluation = one simulated history (structure source, per-run argument tuple, explicit "
                "operation sequence incl. forks/faults, end-of-run audit) executed against the real chmpy with a "
                "fresh-crystal reference after every step; strata: template (every producer x mutator x consumer x "
                "source class), seeded random swarm, thorough adds the length<=4 sweep. A history is non-trivial iff "
                "at least one used-vs-fresh query pair was checked on a handle after a mutator had changed its "
                "state while a memo or cif_data was present (only those can be stale); distinct = distinct sha256 of "
                "(source spec, arguments, operation sequence)."
            ),
            "samples": samples,
            "exhaustive": False,
            "steps_executed_simulated_time": batch.steps,
            "checked_query_pairs_used_vs_fresh": s["checked"],
            "checked_query_pairs_with_memo_or_cif_data_present": s["checked_with_memo"],
            "answers_held_and_read_only_later": s["inspected_later"],
            "checked_pairs_equal_within_tolerance_but_not_bitwise": s["inexact_equal_pairs"],
            "inexact_by_query_and_reference_mode": pick("inexact:"),
            "runs_by_stratum": dict(batch.per_stratum),
            "slice_run_in_an_interpreter_without_assert_statements_python_O": getattr(batch, "opt_summary", None),
            "fault_point_templates": {"defined": s["inject_templates_defined"], "seam_called_by_the_query": s["inject_templates_with_a_live_seam"]},
            "worker_seconds_by_stratum": {k: round(v, 1) for k, v in pick("cpu_s:").items()},
            "runs_by_status": dict(batch.status),
            "source_build_failures_not_judged": pick("source_failed:"),
            "runs_with_injected_fault_or_raising_op": batch.faulted_runs,
            "runs_fault_free": batch.runs - batch.faulted_runs,
            "runs_with_isolated_reference": batch.isolated_ref_runs,
            "runs_with_adversarial_id_allocator": s["runs_with_recycled_ids"],
            "caller_environment": {
                "runs_with_library_debug_logging_on": s["runs_with_library_debug_logging_on"],
                "runs_with_warnings_as_errors_during_library_calls": s["env:warnings"],
                "runs_with_numpy_fp_errors_raised_during_library_calls": s["env:fperr"],
                "calls_that_raised_a_warning_class_or_FloatingPointError": sum(
                    v for k, v in s.items() if k.startswith("raised:") and k.rsplit(":", 1)[1].endswith(("Warning", "FloatingPointError"))),
                "argument_types": pick("args:"),
            },
            "runs_that_changed_process_or_module_state": s["runs_that_changed_process_or_module_state"],
            "runs_rejudged_with_isolated_reference": s["runs_rejudged_with_isolated_reference"],
            "process_or_module_state_changed": pick("state_changed:"),
            "process_isolation": "every history runs in a child forked from a worker that never executes library code; in runs_with_isolated_reference every reference query is answered by its own pristine grandchild process",
            "history_length_histogram_excluding_audit": {str(k): v for k, v in sorted(batch.lengths.items())},
            "runs_by_source_class": dict(sorted(batch.sources.items())),
            "faults_fired": faults,
            "simfs": dict(batch.fs),
            "queries_checked_by_kind": pick("q:"),
            "answers_that_were_None_by_kind": pick("none:"),
            "distinct_abstract_transitions": len(batch.transitions),
            "abstract_transition_definition": "(source class, H/R/- setting, memo bitmask + cif_data flag, #handles) x operation",
            "runs_per_hour": round(batch.runs / max(wall, 1e-9) * 3600),
            "steps_per_hour": round(batch.steps / max(wall, 1e-9) * 3600),
            "workers": workers,
            "determinism_cross_check": det_info,
            "sweep": sweep_info,
            "known_findings_hit": klines,
            "harness_errors": len(harness),
            "unclassified_api": unclassified,
            "components_real": ["chmpy (all of /repo/src as imported)", "numpy", "scipy", "compiled chmpy extensions as built in-tree"],
            "components_stubbed": ["disk: a private tmpfs directory per history (real files) with write/read faults injected at pathlib.Path.write_text/read_text",
                                   "id() of library objects: deterministic adversarial allocator (sim/idseam.py)",
                                   "dependency calls inside queries: 20 seams of chmpy.crystal.crystal fail on their n-th call while armed",
                                   "process: every history in a child forked from a pristine worker; isolated reference in pristine grandchildren",
                                   "logging (silenced)", "clock: not reached by any operation in the alphabet"],
            "not_explored": ["asynchronous interruption (KeyboardInterrupt) inside a query", "caller threads sharing one Crystal",
                             "silent on-disk corruption of a written file", "callers mutating returned arrays in place",
                             "Hirshfeld / promolecule isosurfaces (raise ImportError in this environment: matplotlib.cm.get_cmap is gone) and functional_group_* (need graph_tool)",
                             "injected failures inside mutators", "compiled .pyx kernels cannot be rebuilt here (no Cython): they run as built in-tree"],
        },
        "assumptions": [
            "the reference model is chmpy's own Crystal constructed fresh from a deep copy of (unit_cell, space_group, asymmetric_unit): the check decides history-independence, not absolute correctness of the fresh answer",
            "float results are compared with tolerance 1e-8 (bit equality is what actually occurs)",
            "asym_mol_idx labels are a lazily added annotation: compared when both sides carry them",
            "a clean batch is evidence over the sampled histories, not proof",
        ],
    }
    os.makedirs(os.path.dirname(EVIDENCE), exist_ok=True)
    tmp = EVIDENCE + ".tmp"
    with open(tmp, "w") as f:
        json.dump(doc, f, indent=1, sort_keys=False)
    os.replace(tmp, EVIDENCE)


def sensitivity_main(seed, workers):
    from . import sensitivity

    return sensitivity.main(seed, n_workers(workers))
