"""Shrinking of a failing history (explicit step list; the PRNG is out of the
loop). A candidate is kept only if a violation of the same class, attributed
to the same kind of preceding event, reappears."""
import copy

from . import sources
from .engine import attribute, execute, signature, violation_from_json


def _same_kind(v, want):
    if v is None or v.cls != want["class"]:
        return False
    after = (v.detail or {}).get("after") or ""
    after = after.split("!")[0] + ("!" if "!" in after else "")
    return after == want["after"]


def _try(schedule, want):
    res = execute(schedule)
    if res["violation"] is None:
        return None
    v = violation_from_json(res["violation"])
    if _same_kind(v, want):
        return v
    return None


def _truncate(schedule, v):
    return dict(schedule, steps=schedule["steps"][: v.step + 1])


def ddmin_steps(schedule, want, budget):
    steps = list(schedule["steps"])
    n = 2
    while len(steps) >= 2 and budget[0] > 0:
        chunk = max(1, len(steps) // n)
        removed = False
        for start in range(0, len(steps), chunk):
            cand = steps[:start] + steps[start + chunk :]
            if not cand:
                continue
            budget[0] -= 1
            v = _try(dict(schedule, steps=cand), want)
            if v is not None:
                steps = cand[: v.step + 1]
                n = max(n - 1, 2)
                removed = True
                break
            if budget[0] <= 0:
                break
        if not removed:
            if chunk == 1:
                break
            n = min(len(steps), n * 2)
    return dict(schedule, steps=steps)


SIMPLE_ARGS = {
    "relative": False,
    "shared_dir": False,
    "log_debug": False,
    "arg_style": "plain",
    "strict": None,
    "r": 3.0,
    "origin": [0.0, 0.0, 0.0],
    "bounds": [[-1, -1, -1], [1, 1, 1]],
    "atoms": [0],
    "mol_i": 0,
    "size": [1, 1, 1],
}


def simplify_args(schedule, want, budget):
    for k, simple in SIMPLE_ARGS.items():
        if schedule["args"].get(k) == simple or budget[0] <= 0:
            continue
        cand = dict(schedule, args=dict(schedule["args"], **{k: simple}))
        budget[0] -= 1
        if _try(cand, want) is not None:
            schedule = cand
    return schedule


def simplify_steps(schedule, want, budget):
    """Drop fault decorations and the audit flag; redirect to handle 0."""
    steps = schedule["steps"]
    for i in range(len(steps)):
        st = steps[i]
        for cand_st in (
            {k: v for k, v in st.items() if k not in ("inject", "audit", "defer", "thread")},
            dict(st, h=0),
        ):
            if cand_st == st or budget[0] <= 0:
                continue
            cand = dict(schedule, steps=steps[:i] + [cand_st] + steps[i + 1 :])
            budget[0] -= 1
            if _try(cand, want) is not None:
                schedule, steps, st = cand, cand["steps"], cand_st
    return schedule


def simplify_source(schedule, want, budget):
    changed = True
    while changed and budget[0] > 0:
        changed = False
        for spec in sources.simplify_candidates(schedule["source"]):
            if budget[0] <= 0:
                break
            budget[0] -= 1
            cand = dict(schedule, source=spec)
            if _try(cand, want) is not None:
                schedule = cand
                changed = True
                break
    return schedule


def minimise(schedule, v, max_tests=400):
    """Returns (minimised schedule, its violation, its signature)."""
    schedule = copy.deepcopy(schedule)
    n0 = len(schedule["steps"])
    car0 = attribute(schedule, v)
    want = signature(v, car0)
    budget = [max_tests]
    schedule = _truncate(schedule, v)
    schedule = ddmin_steps(schedule, want, budget)
    schedule = simplify_steps(schedule, want, budget)
    schedule = simplify_args(schedule, want, budget)
    schedule = simplify_source(schedule, want, budget)
    schedule = ddmin_steps(schedule, want, budget)
    res = execute(schedule)
    if res["violation"] is None:  # cannot happen if the engine is deterministic
        raise RuntimeError("minimised schedule no longer fails")
    v2 = violation_from_json(res["violation"])
    schedule = _truncate(schedule, v2)
    sig = signature(v2, attribute(schedule, v2))
    return schedule, v2, sig, n0
