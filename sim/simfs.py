"""In-memory file system behind the only storage seam chmpy uses:
`pathlib.Path.write_text` / `pathlib.Path.read_text`.

Paths under /simfs/ are served from a dict; everything else falls through to
the real implementation (chmpy's bundled data files). A *fault plan* makes
the next write under /simfs/ fail with OSError, either before anything is
stored or after a prefix of the text has been stored (torn file).
"""
import errno
import pathlib

ROOT = "/simfs/"
ERRNOS = {"ENOSPC": errno.ENOSPC, "EACCES": errno.EACCES, "EIO": errno.EIO}


class SimFS:
    def __init__(self):
        self.store = {}
        self.plan = None  # (when, errno_name)
        self.counts = {"writes": 0, "reads": 0, "write_faults": 0, "read_missing": 0}
        self._installed = False

    def reset(self):
        self.store.clear()
        self.plan = None

    def arm(self, when, errno_name):
        # before/after: the write raises (nothing / a prefix stored);
        # lost/short: the write *reports success* but nothing / a prefix is stored;
        # read: the next read raises
        assert when in ("before", "after", "lost", "short", "read")
        self.plan = (when, errno_name)

    def disarm(self):
        fired = self.plan is None
        self.plan = None
        return fired

    def install(self):
        if self._installed:
            return
        fs = self
        real_write, real_read = pathlib.Path.write_text, pathlib.Path.read_text

        def write_text(self, data, *a, **k):
            p = str(self)
            if not p.startswith(ROOT):
                return real_write(self, data, *a, **k)
            if not isinstance(data, str):
                raise TypeError("data must be str, not %s" % type(data).__name__)
            fs.counts["writes"] += 1
            plan = fs.plan
            if plan is not None and plan[0] != "read":
                fs.plan = None
                fs.counts["write_faults"] += 1
                if plan[0] in ("after", "short"):
                    fs.store[p] = data[: len(data) // 2]
                if plan[0] in ("lost", "short"):
                    return len(data)
                raise OSError(ERRNOS[plan[1]], "simulated " + plan[1], p)
            fs.store[p] = data
            return len(data)

        def read_text(self, *a, **k):
            p = str(self)
            if not p.startswith(ROOT):
                return real_read(self, *a, **k)
            fs.counts["reads"] += 1
            if fs.plan is not None and fs.plan[0] == "read":
                plan, fs.plan = fs.plan, None
                fs.counts["read_faults"] = fs.counts.get("read_faults", 0) + 1
                raise OSError(ERRNOS[plan[1]], "simulated " + plan[1], p)
            if p not in fs.store:
                fs.counts["read_missing"] += 1
                raise FileNotFoundError(errno.ENOENT, "simulated ENOENT", p)
            return fs.store[p]

        pathlib.Path.write_text = write_text
        pathlib.Path.read_text = read_text
        self._installed = True


FS = SimFS()
