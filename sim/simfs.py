"""The simulated disk.

Every run gets a private directory on tmpfs (/dev/shm) that is removed when
the run ends: files the library writes are real files there, whichever I/O
API it uses. Faults are injected at the seam chmpy actually uses for crystal
files, `pathlib.Path.write_text` / `read_text`, for paths inside that
directory: a write that raises before anything is stored or after a prefix was
stored, a write that silently stores nothing or only a prefix, a read that
raises.
"""
import errno
import os
import pathlib
import shutil
import tempfile

ERRNOS = {"ENOSPC": errno.ENOSPC, "EACCES": errno.EACCES, "EIO": errno.EIO}
BASE = "/dev/shm" if os.path.isdir("/dev/shm") else tempfile.gettempdir()
PREFIX = "chmpy-simfs-"


class SimFS:
    def __init__(self):
        self.root = None
        self.plan = None  # (when, errno_name)
        self.counts = {"writes": 0, "reads": 0, "write_faults": 0, "read_faults": 0}
        self._installed = False

    # ------------------------------------------------------------ lifecycle
    def reset(self):
        self.cleanup()
        self.root = tempfile.mkdtemp(prefix=PREFIX, dir=BASE)
        self.plan = None

    def cleanup(self):
        if self.root and os.path.isdir(self.root):
            shutil.rmtree(self.root, ignore_errors=True)
        self.root = None

    def dir(self, *parts):
        """An existing directory below the run's root."""
        if self.root is None:
            self.reset()
        d = os.path.join(self.root, *parts)
        os.makedirs(os.path.join(d, "sub"), exist_ok=True)
        return d

    def inside(self, p):
        if self.root is None:
            return False
        if not os.path.isabs(p):
            p = os.path.join(os.getcwd(), p)
        return p.startswith(self.root + os.sep)

    # --------------------------------------------------------------- faults
    def arm(self, when, errno_name):
        # before/after: the write raises (nothing / a prefix stored);
        # lost/short: the write *reports success* but nothing / a prefix is stored;
        # read: the next read raises
        assert when in ("before", "after", "lost", "short", "read")
        self.plan = (when, errno_name)

    def disarm(self):
        fired = self.plan is None
        self.plan = None
        return fired

    def install(self):
        if self._installed:
            return
        fs = self
        real_write, real_read = pathlib.Path.write_text, pathlib.Path.read_text

        def write_text(self, data, *a, **k):
            p = str(self)
            if not fs.inside(p):
                return real_write(self, data, *a, **k)
            if not isinstance(data, str):
                raise TypeError("data must be str, not %s" % type(data).__name__)
            fs.counts["writes"] += 1
            plan = fs.plan
            if plan is not None and plan[0] != "read":
                fs.plan = None
                fs.counts["write_faults"] += 1
                if plan[0] in ("after", "short"):
                    real_write(self, data[: len(data) // 2], *a, **k)
                if plan[0] in ("lost", "short"):
                    return len(data)
                raise OSError(ERRNOS[plan[1]], "simulated " + plan[1], p)
            return real_write(self, data, *a, **k)

        def read_text(self, *a, **k):
            p = str(self)
            if not fs.inside(p):
                return real_read(self, *a, **k)
            fs.counts["reads"] += 1
            if fs.plan is not None and fs.plan[0] == "read":
                plan, fs.plan = fs.plan, None
                fs.counts["read_faults"] += 1
                raise OSError(ERRNOS[plan[1]], "simulated " + plan[1], p)
            return real_read(self, *a, **k)

        pathlib.Path.write_text = write_text
        pathlib.Path.read_text = read_text
        self._installed = True


FS = SimFS()


def sweep_stale(max_age_s=1800):
    """Remove run directories left behind by killed workers."""
    import time

    now = time.time()
    try:
        names = os.listdir(BASE)
    except OSError:
        return
    for n in names:
        if n.startswith(PREFIX):
            p = os.path.join(BASE, n)
            try:
                if now - os.path.getmtime(p) > max_age_s:
                    shutil.rmtree(p, ignore_errors=True)
            except OSError:
                pass
