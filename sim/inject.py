"""Failing-allocation / failing-dependency injection inside a query.

While armed, one seam callable used by `chmpy.crystal.crystal` raises the
chosen exception on its n-th call; the patch is installed by `arm()` and
removed by `disarm()`, so un-faulted steps run the library untouched.
No hook in /repo is needed: the seams are module globals and class attributes.
"""
import chmpy.crystal.crystal as CR
from chmpy.core.molecule import Molecule
from chmpy.crystal.unit_cell import UnitCell

EXCS = {"MemoryError": MemoryError, "RuntimeError": RuntimeError, "OSError": OSError}


class _ModuleProxy:
    """Stands in for a module global (np, csgraph): forwards everything except
    the wrapped attribute."""

    def __init__(self, real, name, wrapper):
        object.__setattr__(self, "_real", real)
        object.__setattr__(self, "_name", name)
        object.__setattr__(self, "_wrapper", wrapper)

    def __getattr__(self, k):
        if k == self._name:
            return self._wrapper
        return getattr(self._real, k)


class _CallableProxy:
    """Stands in for a class used as a constructor (KDTree, dok_matrix, ...)."""

    def __init__(self, real, on_call):
        self._real, self._on_call = real, on_call

    def __call__(self, *a, **k):
        self._on_call()
        return self._real(*a, **k)

    def __getattr__(self, k):
        return getattr(self._real, k)


# target -> how to patch it
GLOBAL_CALLABLES = ("KDTree", "dok_matrix", "cartesian_product", "Cif")
MODULE_FUNCS = {
    "csgraph.connected_components": ("csgraph", "connected_components"),
    "csgraph.breadth_first_order": ("csgraph", "breadth_first_order"),
    "np.tile": ("np", "tile"),
    "np.empty": ("np", "empty"),
    "np.argsort": ("np", "argsort"),
    "np.unique": ("np", "unique"),
    "np.array_equal": ("np", "array_equal"),
    "np.hstack": ("np", "hstack"),
    "np.vstack": ("np", "vstack"),
}
CLASS_METHODS = {
    "Molecule.from_arrays": (Molecule, "from_arrays", True),
    "Molecule.translated": (Molecule, "translated", False),
    "UnitCell.to_cartesian": (UnitCell, "to_cartesian", False),
    "UnitCell.to_fractional": (UnitCell, "to_fractional", False),
}
TARGETS = tuple(GLOBAL_CALLABLES) + tuple(MODULE_FUNCS) + tuple(CLASS_METHODS)


def _patch(target, on_call, stack=False):
    """Install a call counter/fault on one seam; returns the undo function."""
    if target in GLOBAL_CALLABLES:
        real = getattr(CR, target)
        setattr(CR, target, _CallableProxy(real, on_call))
        return lambda: setattr(CR, target, real)
    if target in MODULE_FUNCS:
        mod_name, fn_name = MODULE_FUNCS[target]
        current = getattr(CR, mod_name)  # real module, or a proxy when stacking
        real_fn = getattr(current, fn_name)

        def wrapper(*a, **k):
            on_call()
            return real_fn(*a, **k)

        setattr(CR, mod_name, _ModuleProxy(current, fn_name, wrapper))
        return lambda: setattr(CR, mod_name, current)
    if target in CLASS_METHODS:
        cls, name, is_classmethod = CLASS_METHODS[target]
        raw = cls.__dict__[name]
        if is_classmethod:
            fn = raw.__func__

            def cm(c, *a, **k):
                on_call()
                return fn(c, *a, **k)

            setattr(cls, name, classmethod(cm))
        else:

            def m(self_, *a, **k):
                on_call()
                return raw(self_, *a, **k)

            setattr(cls, name, m)
        return lambda: setattr(cls, name, raw)
    raise KeyError(target)


class Injector:
    def __init__(self):
        self._undo = None
        self.fired = False
        self.calls = 0

    def reset(self):
        if self._undo is not None:
            self.disarm()
        self.fired = False
        self.calls = 0

    def arm(self, target, nth, exc):
        assert self._undo is None, "injector already armed"
        self.fired = False
        self.calls = 0
        exc_cls = EXCS[exc]
        inj = self

        def on_call():
            inj.calls += 1
            if inj.calls == nth and not inj.fired:
                inj.fired = True
                raise exc_cls("injected failure in %s (call %d)" % (target, nth))

        self._undo = _patch(target, on_call)

    def probe(self, thunk):
        """Run `thunk()` with every seam counted (nothing raised by us);
        returns {target: number of calls}. Used by the generator to aim a
        fault at a call that will actually happen."""
        assert self._undo is None, "injector already armed"
        counts = {}
        undos = []
        seen_modules = set()
        for target in TARGETS:
            counts[target] = 0

            def on_call(t=target):
                counts[t] += 1

            if target in MODULE_FUNCS:
                # one proxy per module global: chain the wrappers
                undos.append(_patch(target, on_call, stack=True))
            else:
                undos.append(_patch(target, on_call))
        try:
            try:
                thunk()
            except Exception:  # noqa: BLE001 - the probe's outcome is irrelevant
                pass
        finally:
            for u in reversed(undos):
                u()
        return counts

    def disarm(self):
        if self._undo is not None:
            self._undo()
            self._undo = None
        return self.fired


INJECTOR = Injector()
