"""Structure sources: explicit, JSON-serialisable specifications of the crystal
a run starts from, and the seeded generator of such specifications.

spec = {"kind": "synthetic", "sg": [number, choice], "cell": [a,b,c,al,be,ga],
        "elements": [...], "frac": [[x,y,z],...], "occupation": null | [...],
        "via": null | "cif" | "res" | "poscar"}
     | {"kind": "file", "name": "<file in chmpy's test_files>"}
"""
import math
import os

import numpy as np

import chmpy
from chmpy import Crystal
from chmpy.core.element import Element
from chmpy.crystal import AsymmetricUnit, SpaceGroup, UnitCell

TEST_FILES = os.path.join(os.path.dirname(chmpy.__file__), "tests", "test_files")
FILES = ["r3c_example.cif", "acetic_acid.cif", "iceII.cif", "acetic_acid.res", "HXACAN01.pdb", "example.gen"]
RGROUPS = (146, 148, 155, 160, 161, 166, 167)

# (number, choice) settings used for non-trigonal sources
OTHER_GROUPS = [
    (1, ""), (2, ""), (4, ""), (5, ""), (7, ""), (9, ""), (14, ""), (15, ""),
    (19, ""), (29, ""), (33, ""), (61, ""), (62, ""), (76, ""), (88, ""),
    (143, ""), (147, ""), (173, ""), (198, ""),
    # non-default settings and origin choices, high-symmetry groups
    (14, "c1"), (14, "b2"), (15, "-b1"), (5, "a1"), (62, "cab"), (62, "a-cb"), (48, "1"), (70, "1"),
    (141, "1"), (141, ""), (194, ""), (225, ""), (227, "1"), (230, ""),
]  # fmt: skip

MOLS = {
    "H2O": (["O", "H", "H"], [[0, 0, 0], [0.957, 0, 0], [-0.24, 0.927, 0]]),
    "CO": (["C", "O"], [[0, 0, 0], [1.128, 0, 0]]),
    "CO2": (["O", "C", "O"], [[-1.16, 0, 0], [0, 0, 0], [1.16, 0, 0]]),
    "HCN": (["H", "C", "N"], [[-1.064, 0, 0], [0, 0, 0], [1.156, 0, 0]]),
    "CH4": (
        ["C", "H", "H", "H", "H"],
        [[0, 0, 0], [0.629, 0.629, 0.629], [-0.629, -0.629, 0.629],
         [-0.629, 0.629, -0.629], [0.629, -0.629, -0.629]],
    ),
    "NH3": (
        ["N", "H", "H", "H"],
        [[0, 0, 0.116], [0, 0.939, -0.271], [0.813, -0.470, -0.271], [-0.813, -0.470, -0.271]],
    ),
    "CH3OH": (
        ["C", "O", "H", "H", "H", "H"],
        [[-0.047, 0.664, 0], [-0.047, -0.758, 0], [-1.093, 0.973, 0],
         [0.437, 1.071, 0.890], [0.437, 1.071, -0.890], [0.865, -1.057, 0]],
    ),
}  # fmt: skip


class SourceError(Exception):
    """The structure source could not be built (not a property violation)."""


def make_space_group(number, choice):
    return SpaceGroup(number, choice=choice) if choice else SpaceGroup(number)


def build(spec, fs_dir=None):
    """Construct the starting crystal of a run from its specification."""
    if spec["kind"] == "file":
        return Crystal.load(os.path.join(TEST_FILES, spec["name"]))
    number, choice = spec["sg"]
    sg = make_space_group(number, choice)
    uc = UnitCell.from_lengths_and_angles(
        list(spec["cell"][:3]), list(spec["cell"][3:]), unit="degrees"
    )
    els = [Element[x] for x in spec["elements"]]
    kwargs = {}
    if spec.get("occupation") is not None:
        kwargs["occupation"] = np.array(spec["occupation"], dtype=float)
    labels = spec.get("labels")
    asym = AsymmetricUnit(els, np.array(spec["frac"], dtype=float), labels=list(labels) if labels else None, **kwargs)
    c = Crystal(uc, sg, asym)
    via = spec.get("via")
    if not via:
        return c
    name = {"cif": "s.cif", "res": "s.res", "poscar": "POSCAR"}[via]
    if fs_dir is None:
        from .simfs import FS

        fs_dir = FS.dir("src")
    path = fs_dir + "/" + name
    try:
        c.save(path)
        if via == "cif" and spec.get("quirks"):
            from pathlib import Path

            Path(path).write_text(apply_cif_quirks(Path(path).read_text(), spec))
        loaded = Crystal.load(path)
    except Exception as e:  # a writer/reader limitation: C10's business
        raise SourceError("%s round trip failed: %s: %s" % (via, type(e).__name__, e))
    if not isinstance(loaded, Crystal):
        raise SourceError("%s round trip gave %s" % (via, type(loaded).__name__))
    return loaded


CIF_QUIRKS = ["occ_unknown", "no_type_symbol", "symop_new_key", "it_number_only", "esd", "shifted_origin", "shifted_origin",
              "symop_blanks"]


def apply_cif_quirks(text, spec):
    """Unusual-but-legal spellings of the same CIF (other branches of the
    reader; structures on which some queries legitimately raise)."""
    import re

    from chmpy.fmt.cif import Cif

    cif = Cif.from_string(text)
    (name, data), = cif.data.items()
    data = dict(data)
    quirks = spec["quirks"]
    if "occ_unknown" in quirks and "atom_site_occupancy" in data:
        occ = list(data["atom_site_occupancy"])
        occ[len(occ) // 2] = "?"
        data["atom_site_occupancy"] = occ
    if "no_type_symbol" in quirks:
        data.pop("atom_site_type_symbol", None)
    if "shifted_origin" in quirks and "symmetry_equiv_pos_as_xyz" in data and "it_number_only" not in quirks:
        # the same structure described from another origin: the operation list
        # matches no tabulated setting (a legal CIF; the reader keeps the
        # listed operations and takes the IT number as given)
        from chmpy.crystal.symmetry_operation import SymmetryOperation

        shift = np.array([0.25, 0.25, 0.0])
        ops = []
        for x in data["symmetry_equiv_pos_as_xyz"]:
            op = SymmetryOperation.from_string_code(x)
            t = np.asarray(op.translation) + (np.eye(3) - np.asarray(op.rotation)) @ shift
            ops.append(str(SymmetryOperation(np.asarray(op.rotation), t)))
        data["symmetry_equiv_pos_as_xyz"] = ops
        for k, d in zip(("atom_site_fract_x", "atom_site_fract_y", "atom_site_fract_z"), shift):
            data[k] = [float(v) + float(d) for v in data[k]]
        if sum(map(ord, "".join(spec["elements"]))) % 2 == 0:
            # (for half of the structures) with the IT number; without it the
            # reader files the group under number 1
            data = dict([("symmetry_Int_Tables_number", int(spec["sg"][0]))] + list(data.items()))
    if "symop_new_key" in quirks and "symmetry_equiv_pos_as_xyz" in data:
        data = {
            {"symmetry_equiv_pos_as_xyz": "space_group_symop_operation_xyz",
             "symmetry_equiv_pos_site_id": "space_group_symop_id"}.get(k, k): v
            for k, v in data.items()
        }  # fmt: skip
    if "it_number_only" in quirks and spec["sg"][1] in ("", "H"):
        for k in ("symmetry_equiv_pos_as_xyz", "symmetry_equiv_pos_site_id",
                  "space_group_symop_operation_xyz", "space_group_symop_id"):
            data.pop(k, None)
        data = dict([("space_group_IT_number", int(spec["sg"][0]))] + list(data.items()))
    if "symop_blanks" in quirks:
        # operations written the usual CIF way, 'x, y, z' (quoted, with blanks)
        for k in ("symmetry_equiv_pos_as_xyz", "space_group_symop_operation_xyz"):
            if k in data:
                data[k] = [str(x).replace("+", "").replace(",", ", ") if not str(x).startswith("-")
                           else str(x).replace("+", "").replace(",", ", ") for x in data[k]]
    if "descriptive" in quirks:
        # optional items that describe the structure as deposited files do
        # (names of the setting, derived cell quantities); the reader ignores
        # them but a crystal born from the file carries them along
        from chmpy.crystal import SpaceGroup, UnitCell

        try:
            symbol = SpaceGroup(int(spec["sg"][0]), spec["sg"][1]).symbol
        except Exception:  # noqa: BLE001
            symbol = "Unknown"
        setting = (" :" + spec["sg"][1]) if spec["sg"][1] in ("H", "R") else ""
        a, b, c, al, be, ga = [float(v) for v in spec["cell"]]
        volume = UnitCell.from_lengths_and_angles([a, b, c], np.radians([al, be, ga])).volume()
        extra = [
            ("symmetry_cell_setting", "trigonal" if int(spec["sg"][0]) in RGROUPS else "unknown"),
            ("symmetry_space_group_name_H-M", symbol + setting),
            ("symmetry_space_group_name_Hall", "Hall " + symbol + setting),
            ("cell_volume", round(float(volume), 3)),
            ("cell_formula_units_Z", len(spec["frac"]) % 5 + 1),
        ]
        data = dict([kv for kv in extra if kv[0] not in data] + list(data.items()))
    out = Cif({name: data}).to_string()
    if "esd" in quirks:
        out = re.sub(r"^(_cell_length_[abc] \S+)$", r"\1(3)", out, flags=re.M)
    return out


def source_class(spec):
    if spec["kind"] == "file":
        return "file:" + spec["name"]
    rl = "R" if spec["sg"][0] in RGROUPS else "N"
    via = spec.get("via") or "mem"
    if spec.get("quirks"):
        via += "+quirks"
    return "%s/%s/%s" % (spec.get("content", "synthetic"), rl, via)


# ---------------------------------------------------------------- generation
def _cell_for(rng, number, choice):
    a, b, c = (round(rng.uniform(7, 13), 4) for _ in range(3))
    if number <= 2:
        ang = [round(rng.uniform(75, 105), 3) for _ in range(3)]
        L = [a, b, c]
    elif number <= 15:
        ang = [90.0, round(rng.uniform(92, 115), 3), 90.0]
        L = [a, b, c]
    elif number <= 74:
        ang = [90.0, 90.0, 90.0]
        L = [a, b, c]
    elif number <= 142:
        ang = [90.0, 90.0, 90.0]
        L = [a, a, c]
    elif number <= 194:
        odd = rng.random() if number in RGROUPS else 1.0
        if choice == "R":
            al = round(rng.uniform(55, 105), 3)
            ang = [al, al, al]
            L = [a, a, a]
            if odd < 0.06:
                # lengths that agree to six digits only: still "equal" for the
                # library's relative tolerance, not for an exact comparison
                L = [a, round(a * (1 + 4e-6), 7), a]
            elif odd < 0.12:
                ang = [97.1808, 97.1808, 97.1808]  # the hexagonal description of this cell has c == a
        else:
            ang = [90.0, 90.0, 120.0]
            L = [round(a + 3, 4), round(a + 3, 4), c] if number in RGROUPS else [a, a, c]
            if odd < 0.06:
                L = [L[0], round(L[0] * (1 + 4e-6), 7), c]
            elif odd < 0.12:
                L = [L[0], L[0], L[0]]  # c == a: not "hexagonal" for the library's classification
    else:
        ang = [90.0, 90.0, 90.0]
        L = [a, a, a]
    return L + ang


def _randrot(rng):
    q = np.array([rng.gauss(0, 1) for _ in range(4)])
    q /= np.linalg.norm(q)
    w, x, y, z = q
    return np.array(
        [
            [1 - 2 * (y * y + z * z), 2 * (x * y - z * w), 2 * (x * z + y * w)],
            [2 * (x * y + z * w), 1 - 2 * (x * x + z * z), 2 * (y * z - x * w)],
            [2 * (x * z - y * w), 2 * (y * z + x * w), 1 - 2 * (x * x + y * y)],
        ]
    )


def _round_frac(frac):
    return [[round(float(v), 6) for v in row] for row in frac]


def gen_spec(rng, kind=None):
    """Draw a structure specification. Every choice comes from `rng`."""
    kind = kind or rng.choice(
        ["messy", "messy", "co", "co", "co", "special", "file"]
    )
    if kind == "file":
        return {"kind": "file", "name": rng.choice(FILES)}
    trig = rng.random() < 0.6
    if trig:
        number, choice = rng.choice(RGROUPS), rng.choice("HR")
    else:
        number, choice = rng.choice(OTHER_GROUPS)
    cell = _cell_for(rng, number, choice)
    uc = UnitCell.from_lengths_and_angles(cell[:3], cell[3:], unit="degrees")
    occupation = None
    n_ops = len(make_space_group(number, choice).symmetry_operations)
    if n_ops > 48 and kind != "special":
        kind = "messy"  # keep the unit cell of 96/192-operation groups small
    if kind == "messy":
        k = rng.randint(1, 8 if n_ops <= 48 else 3)
        palette = ["C", "H", "O", "N", "H"] if rng.random() < 0.8 else ["C", "H", "O", "S", "Cl", "Fe", "Br", "P", "D"]
        els = [rng.choice(palette) for _ in range(k)]
        centre = np.array([[rng.random() for _ in range(3)]])
        cart = uc.to_cartesian(centre) + np.array(
            [[rng.uniform(-1.3, 1.3) for _ in range(3)] for _ in range(k)]
        )
        frac = uc.to_fractional(cart)
    elif kind == "co":
        els, pos = [], []
        for name in rng.sample(sorted(MOLS), rng.randint(1, 3)):
            e, p = MOLS[name]
            origin = uc.to_cartesian(np.array([[rng.random() for _ in range(3)]]))
            pos.append(np.array(p) @ _randrot(rng).T + origin)
            els += e
        frac = uc.to_fractional(np.vstack(pos))
    else:  # "special": sites on/near symmetry elements, partial occupancies
        k = rng.randint(1, 4 if n_ops <= 48 else 2)
        els = [rng.choice(["O", "N", "C", "S", "Cl"]) for _ in range(k)]
        grid = [0.0, 0.5, 1 / 3, 2 / 3, 0.25, 0.75]
        frac = np.array(
            [
                [rng.choice(grid) if rng.random() < 0.6 else rng.random() for _ in range(3)]
                for _ in range(k)
            ]
        )
        if rng.random() < 0.5:
            occupation = [rng.choice([1.0, 0.5, 0.25]) for _ in range(k)]
        if rng.random() < 0.15:
            # a single atom at the origin: one atom per primitive cell
            els, frac, occupation = [rng.choice(["Fe", "Cl", "O", "C"])], np.zeros((1, 3)), None
    frac = np.asarray(frac, dtype=float)
    if rng.random() < 0.1 and len(els) >= 1:
        # a disordered site: two half-occupied positions a few hundredths of an Angstrom apart
        j = rng.randrange(len(els))
        els = list(els) + [els[j]]
        frac = np.vstack([frac, frac[j] + np.array([rng.choice([0.002, 0.004, 0.02]), 0.0, 0.001])])
        occupation = list(occupation) + [0.5] if occupation is not None else [1.0] * (len(els) - 1) + [0.5]
        occupation[j] = 0.5
    via = rng.choice([None, None, "cif", "cif", "res", "poscar"])
    labels = None
    if rng.random() < 0.3:
        # site labels as found in real files: suffixes, longer than SHELX's four characters
        sufs = rng.choice([["A", "B", ""], ["_a", "_b"], ["A_2", "B_2", "X10"], ["long", ""]])
        labels = ["%s%d%s" % (e, i + 1, rng.choice(sufs)) for i, e in enumerate(els)]
    quirks = None
    if via == "cif" and rng.random() < 0.3:
        quirks = rng.sample(CIF_QUIRKS, rng.randint(1, 2))
    if via == "cif" and rng.random() < 0.4:
        quirks = (quirks or []) + ["descriptive"]
    if quirks and "shifted_origin" in quirks and "symop_blanks" not in quirks and rng.random() < 0.5:
        quirks = quirks + ["symop_blanks"]
    return {
        "quirks": quirks,
        "labels": labels,
        "kind": "synthetic",
        "content": kind,
        "sg": [int(number), choice],
        "cell": [float(v) for v in cell],
        "elements": list(els),
        "frac": _round_frac(frac),
        "occupation": occupation,
        "via": via,
    }


def simplify_candidates(spec):
    """Smaller variants of a synthetic source for the minimiser."""
    if spec["kind"] != "synthetic":
        return
    if spec.get("labels"):
        yield dict(spec, labels=None)
    if spec.get("quirks"):
        yield dict(spec, quirks=None)
        for q in spec["quirks"]:
            if len(spec["quirks"]) > 1:
                yield dict(spec, quirks=[x for x in spec["quirks"] if x != q])
    if spec.get("via"):
        yield dict(spec, via=None, quirks=None)
    if spec.get("occupation") is not None:
        yield dict(spec, occupation=None)
    n = len(spec["elements"])
    for i in range(n):
        if n <= 1:
            break
        s = dict(spec)
        s["elements"] = spec["elements"][:i] + spec["elements"][i + 1 :]
        s["frac"] = spec["frac"][:i] + spec["frac"][i + 1 :]
        if spec.get("occupation") is not None:
            s["occupation"] = spec["occupation"][:i] + spec["occupation"][i + 1 :]
        if spec.get("labels"):
            s["labels"] = spec["labels"][:i] + spec["labels"][i + 1 :]
        yield s
