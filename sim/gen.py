"""Seeded generation of histories (swarm style), the stratified template
prefix, and the length-<=4 sweep. One integer decides everything:
run seed = sha256(VERIF_SEED | stratum | run_index); all choices below come
from `random.Random(run seed)`; numpy's global RNG is never used.
"""
import copy
import hashlib
import random

from . import ops as O
from . import sources
from .engine import MAX_HANDLES, Sim, Violation, audit_steps
from .inject import INJECTOR
from .simfs import FS
from .inject import TARGETS as INJECT_TARGETS

FAST_QUERIES = list(O.QUERIES)
PRODUCERS = [q for q, (_, role) in O.QUERIES.items() if role == "P"]
CONSUMERS = [q for q, (_, role) in O.QUERIES.items() if role in ("C", "X")]
EXPORTS = [q for q, (_, role) in O.QUERIES.items() if role == "X"]
ISOLATED_SHARE = 0.25
FORK_OPS = ["deepcopy", "deepcopy", "pickle", "pickle", "reload", "reload", "derive_P1", "derive_cif", "derive_res", "derive_supercell", "derive_from_molecule", "stranger", "stranger", "stranger_kw", "stranger_kw", "other", "other", "heavy", "sibling", "sibling", "derive_cifdata", "drop"]
RADII = [1.5, 3.0, 3.8, 6.0, 9.0]
BOUNDS = [
    [[-1, -1, -1], [1, 1, 1]],
    [[0, 0, 0], [0, 0, 0]],
    [[-1, 0, 0], [1, 1, 2]],
    [[0, 0, 0], [1, 1, 1]],
    [[-2, -1, 0], [0, 1, 0]],
]
SIZES = [[1, 1, 1], [2, 1, 1], [1, 1, 2], [1, 2, 1], [2, 2, 1], [2, 2, 2]]
ATOM_GROUPS = [[0], [0, 1], [1], [0, 1, 2]]


def run_seed(verif_seed, stratum, index):
    h = hashlib.sha256(("%d|%s|%d" % (verif_seed, stratum, index)).encode()).digest()
    return int.from_bytes(h[:8], "big")


def gen_args(rng, large=False):
    """One argument tuple per run (reused by every query of the run). Half of
    the runs take the round values above, the others draw freely: radii from
    bond lengths to 12 A (the Hirshfeld default), any slab corner pair within
    +-2 cells, any origin, supercells up to 3 along an axis."""
    kw = rng.choice([
        {"tolerance": 0.25, "covalent_radii": {"8": 1.3}},
        {"tolerance": 0.4, "covalent_radii": {"1": 0.6, "6": 0.95}},
        {"tolerance": 0.55, "covalent_radii": {"7": 1.1, "8": 0.5}},
    ])
    if rng.random() < 0.5:
        return {
            "kw": kw,
            "relative": rng.random() < 0.5,
            "shared_dir": rng.random() < 0.25,
            "path_objects": rng.random() < 0.3,
            "log_debug": rng.random() < 0.25,
            "arg_style": rng.choice(["plain", "plain", "alt", "alt2"]),
            "strict": rng.choice([None, None, None, None, None, None, "warnings", "fperr"]),
            "r": rng.choice(RADII[:3] if large else RADII),
            "origin": [rng.choice([0.0, 0.3, -0.7, 1.4, 0.5]) for _ in range(3)],
            "bounds": rng.choice(BOUNDS),
            "atoms": rng.choice(ATOM_GROUPS),
            "mol_i": rng.randint(0, 3),
            "size": rng.choice(SIZES[:3] if large else SIZES),
        }
    lo = [rng.randint(-2, 1) for _ in range(3)]
    hi = [l + rng.randint(0, 2) for l in lo]
    size = [1, 1, 1]
    size[rng.randrange(3)] = rng.choice([1, 2, 3])
    if not large and rng.random() < 0.5:
        size[rng.randrange(3)] = 2
    return {
        "kw": kw,
        "relative": rng.random() < 0.5,
        "shared_dir": rng.random() < 0.25,
        "path_objects": rng.random() < 0.3,
        "log_debug": rng.random() < 0.25,
        "arg_style": rng.choice(["plain", "plain", "alt", "alt2"]),
        "strict": rng.choice([None, None, None, None, None, None, "warnings", "fperr"]),
        "r": round(rng.uniform(1.0, 4.5 if large else 12.0), 3),
        "origin": [round(rng.uniform(-1.5, 2.5), 4) for _ in range(3)],
        "bounds": [lo, hi],
        "atoms": sorted(rng.sample(range(4), rng.randint(1, 3))),
        "mol_i": rng.randint(0, 5),
        "size": size,
    }


def is_large(spec):
    """Structures whose unit cell holds many atoms: cheaper arguments, no
    expensive queries, a smaller audit."""
    if spec["kind"] == "file":
        return spec["name"] == "r3c_example.cif"
    n_ops = len(sources.make_space_group(*spec["sg"]).symmetry_operations)
    return n_ops * len(spec["elements"]) > 150


def gen_config(rng, spec):
    large = is_large(spec)
    r = rng.random()
    if r < 0.6:
        length = rng.randint(1, 4)
    elif r < 0.95:
        length = rng.randint(5, 12)
    else:
        length = rng.randint(13, 40)
    k = rng.randint(3, len(FAST_QUERIES))
    enabled = rng.sample(FAST_QUERIES, k)
    slow = []
    if not large and rng.random() < 0.35:
        slow = rng.sample(sorted(O.SLOW_QUERIES), rng.randint(1, 2))
    fault_kinds = [f for f in ("raiser", "wfail", "inject") if rng.random() < 0.5]
    threads = rng.random() < 0.2  # the crystal is handed between caller threads (one call at a time)
    return {
        "length": length,
        "queries": enabled,
        "slow": slow,
        "p_mut": rng.choice([0.0, 0.1, 0.2, 0.35]),
        "p_fork": rng.choice([0.0, 0.05, 0.1, 0.2]),
        "p_fault": rng.choice([0.05, 0.1, 0.2]) if fault_kinds else 0.0,
        "fault_kinds": fault_kinds,
        "threads": threads,
        "large": large,
    }


def _aimed_injection(rng, sim, hi, op):
    """Aim the fault at a seam call that will actually happen: count the calls
    the query makes on a throw-away deep copy of the handle first."""
    fn = O.ALL_QUERIES[op][0]
    trial = copy.deepcopy(sim.world[hi])
    counts = INJECTOR.probe(lambda: fn(trial, sim.A, {"dir": FS.dir("probe"), "box": dict(sim.box[hi])}))
    live = sorted(t for t, n in counts.items() if n > 0)
    if not live:
        target = rng.choice(INJECT_TARGETS)
        nth = 1
    else:
        target = rng.choice(live)
        nth = rng.randint(1, counts[target]) if rng.random() < 0.7 else 1
    return {"target": target, "nth": nth, "exc": rng.choice(["MemoryError", "MemoryError", "RuntimeError"])}


def _fault_step(rng, cfg, hi, sim):
    kind = rng.choice(cfg["fault_kinds"])
    if kind == "raiser":
        return {"h": hi, "op": rng.choice(sorted(O.RAISERS) + ["toX"])}
    if kind == "wfail":
        return {
            "h": hi,
            "op": "wfail",
            "fmt": rng.choice(sorted(O.WRITE_FAULT_TARGETS)),
            "when": rng.choice(["before", "before", "after", "after", "lost", "short", "read"]),
            "errno": rng.choice(["ENOSPC", "EACCES", "EIO"]),
        }
    op = rng.choice([q for q in cfg["queries"] if O.ALL_QUERIES[q][0] is not None] or ["uc_atoms"])
    return {"h": hi, "op": op, "inject": _aimed_injection(rng, sim, hi, op)}


def choose_step(rng, cfg, fb, sim):
    hi = rng.randrange(MAX_HANDLES) % len(sim.world)
    if fb is not None and fb["op"] in O.MUTATORS and fb["h"] < len(sim.held) and sim.held[fb["h"]]:
        # answers handed out before the state change are read now
        return {"h": fb["h"], "op": "inspect"}
    if fb is not None:
        if fb["new_memo"] and cfg["p_mut"] > 0 and rng.random() < 0.5:
            return {"h": fb["h"], "op": rng.choice(["toH", "toR", "toH", "toR", "normH", "normH_tol", "flip2", "flip3"] * 4 + ["flip1001"])}
        if fb["changed"]:
            r = rng.random()
            if r < 0.3 and cfg["p_fork"] > 0:
                return {"h": fb["h"], "op": rng.choice(FORK_OPS)}
            if r < 0.8:
                return {"h": fb["h"], "op": rng.choice(CONSUMERS)}
    r = rng.random()
    if r < cfg["p_mut"]:
        return {"h": hi, "op": rng.choice(["toH", "toR", "toH", "toR", "normH", "normH_tol", "flip2", "flip3"] * 4 + ["flip1001"])}
    r -= cfg["p_mut"]
    if r < cfg["p_fork"]:
        return {"h": hi, "op": rng.choice(FORK_OPS)}
    r -= cfg["p_fork"]
    if r < cfg["p_fault"]:
        return _fault_step(rng, cfg, hi, sim)
    if sim.kw[hi]:
        return {"h": hi, "op": rng.choice(sorted(O.KW_QUERIES) * 2 + O.KW_SAFE)}
    pool = list(cfg["queries"]) + list(cfg["slow"])
    h = sim.world[hi]
    if "cif_data" in h.properties and rng.random() < 0.3:
        pool = EXPORTS
    st = {"h": hi, "op": rng.choice(pool)}
    if st["op"] in O.DEFERRABLE and rng.random() < 0.2:
        st["defer"] = True  # hold the answer, read it at a later `inspect` step
    return st


def audit_for(rng, cfg, sim):
    """End-of-run audit: a seeded sample of query kinds, asked on every handle
    (histories ending in a mutator or a fork are judged too)."""
    qs = rng.sample(FAST_QUERIES, 6 if cfg["large"] else 10)
    steps = [{"h": hi, "op": "inspect", "audit": True} for hi in range(len(sim.world)) if sim.held[hi]]
    for hi in range(len(sim.world)):
        if sim.kw[hi]:
            names = sorted(O.KW_QUERIES) + rng.sample(O.KW_SAFE, 3)
        else:
            names = qs
        steps += [{"h": hi, "op": q, "audit": True} for q in names]
    return steps


class RunResult:
    __slots__ = ("schedule", "sim", "violation", "status", "stratum", "index", "error")

    def __init__(self, schedule, sim, violation, status, stratum, index, error=None):
        self.schedule, self.sim, self.violation = schedule, sim, violation
        self.status, self.stratum, self.index, self.error = status, stratum, index, error


def _drive(spec, A, stratum, index, producer, ref_mode="inproc"):
    """Common loop: `producer(sim, fb)` yields the next step or None."""
    # the allocator seam (idseam.py): id() of library objects is deterministic
    # and recycles identifiers adversarially, in every generated history
    ids = "recycled"
    schedule = {"source": spec, "args": A, "steps": [], "ref": ref_mode, "ids": ids}
    try:
        sim = Sim(spec, A, ref_mode=ref_mode, ids=ids)
    except sources.SourceError as e:
        return RunResult(schedule, None, None, "source_failed", stratum, index, str(e))
    fb = None
    try:
        while True:
            st = producer(sim, fb)
            if st is None:
                break
            schedule["steps"].append(st)
            fb = sim.step(st)
    except Violation as v:
        return RunResult(schedule, sim, v, "violation", stratum, index)
    finally:
        sim.close()
    return RunResult(schedule, sim, None, "ok", stratum, index)


def ref_mode_for(rng):
    """Isolated reference (one pristine process per reference query) for a
    seeded share of the runs; the in-process reference for the rest."""
    return "isolated" if rng.random() < ISOLATED_SHARE else "inproc"


def random_run(verif_seed, index, stratum="random"):
    rng = random.Random(run_seed(verif_seed, stratum, index))
    spec = sources.gen_spec(rng)
    cfg = gen_config(rng, spec)
    A = gen_args(rng, cfg["large"])
    ref_mode = ref_mode_for(rng)
    state = {"n": 0, "audit": None}

    def producer(sim, fb):
        if state["audit"] is None:
            if state["n"] < cfg["length"]:
                state["n"] += 1
                st = choose_step(rng, cfg, fb, sim)
                if cfg["threads"] and (st["op"] in O.ALL_QUERIES or st["op"] in O.MUTATORS):
                    st["thread"] = rng.choice([0, 1, 1, 2])
                return st
            state["audit"] = iter(audit_for(rng, cfg, sim))
        return next(state["audit"], None)

    return _drive(spec, A, stratum, index, producer, ref_mode)


# ------------------------------------------------------------- templates
TEMPLATE_Q1 = [None, "uc_atoms", "conn", "uc_mols", "sym_mols", "labelled_uc_mols"]
TEMPLATE_MUT = ["switch", "flip3", "normH", "normH_tol", "same", "long"]
TEMPLATE_SRC = [
    ("co", None),
    ("co", "cif"),
    ("messy", None),
    ("messy", "cif"),
    ("file", None),
    ("single", None),  # one atom at the origin of an R-lattice group: a one-atom primitive cell
]
# (first query, last query): every memo state before the mutator x every
# query after it, plus every export before x every export after it (a file
# written twice to the same path, stored CIF data refreshed twice)
TEMPLATE_PAIRS = [(q1, q2) for q1 in TEMPLATE_Q1 for q2 in FAST_QUERIES] + [
    (q1, q2) for q1 in EXPORTS for q2 in EXPORTS
]
N_MEMO_PAIRS = len(TEMPLATE_Q1) * len(FAST_QUERIES)
# export pairs only on the CIF-loaded sources and the file (stored CIF data, files overwritten)
TEMPLATE_COMBOS = [
    (p, m, s)
    for p in range(len(TEMPLATE_PAIRS))
    for m in range(len(TEMPLATE_MUT))
    for s in range(len(TEMPLATE_SRC))
    if (p < N_MEMO_PAIRS or TEMPLATE_SRC[s][1] == "cif" or TEMPLATE_SRC[s][0] == "file")
    # a second export: the same kind again, or one of three core kinds
    and (p < N_MEMO_PAIRS or TEMPLATE_PAIRS[p][0] == TEMPLATE_PAIRS[p][1] or TEMPLATE_PAIRS[p][1] in ("cif", "sl_res", "sl_poscar"))
    # the normalisation with its own tolerance: cold or atom-table-only memo state, bond-graph consumers afterwards
    and (TEMPLATE_MUT[m] != "normH_tol" or (p < N_MEMO_PAIRS and TEMPLATE_PAIRS[p][0] in (None, "uc_atoms")
                                            and TEMPLATE_PAIRS[p][1] in ("conn", "uc_mols", "sym_mols", "menv", "as_P1")))
    # asking for the setting the crystal is in already (a state-changing call that changes nothing)
    and (TEMPLATE_MUT[m] != "same" or (p < N_MEMO_PAIRS and TEMPLATE_PAIRS[p][0] in (None, "uc_atoms", "sym_mols")
                                       and TEMPLATE_PAIRS[p][1] in ("cif_twin", "cif", "sl_cif", "res", "uc_atoms", "sym_mols")))
    # a long life first (1001 switches), then query -> switch -> the same query
    and (TEMPLATE_MUT[m] != "long" or (p < N_MEMO_PAIRS and TEMPLATE_PAIRS[p][0] in (None, "uc_atoms")
                                       and TEMPLATE_PAIRS[p][1] in ("uc_atoms", "conn", "sym_mols", "density", "cif", "sl_res",
                                                                    "cif_twin", "as_P1")))
]
N_TEMPLATES = len(TEMPLATE_COMBOS)


def template_of(index):
    p, m, s = TEMPLATE_COMBOS[index % N_TEMPLATES]
    q1, q2 = TEMPLATE_PAIRS[p]
    return q1, TEMPLATE_MUT[m], q2, TEMPLATE_SRC[s]


def template_run(verif_seed, index, stratum="template"):
    """producer query -> mutator -> consumer query, on a source where the
    mutator can succeed: every (q1, mutator, q2, source class) triple is run
    once per batch regardless of luck."""
    rng = random.Random(run_seed(verif_seed, stratum, index))
    q1, mut, q2, (content, via) = template_of(index)
    if content == "file":
        spec = {"kind": "file", "name": "r3c_example.cif"}
    elif content == "single":
        number, choice = rng.choice(sources.RGROUPS), rng.choice("HR")
        spec = {"kind": "synthetic", "content": "special", "sg": [int(number), choice],
                "cell": [float(v) for v in sources._cell_for(rng, number, choice)],
                "elements": [rng.choice(["Fe", "Cl", "O", "C"])], "frac": [[0.0, 0.0, 0.0]],
                "occupation": None, "via": rng.choice([None, "cif"]), "quirks": None, "labels": None}
    else:
        while True:
            spec = sources.gen_spec(rng, kind=content)
            if spec["sg"][0] in sources.RGROUPS:
                break
        if content != "single":
            spec["via"] = via
        if spec.get("via") != "cif":
            spec["quirks"] = None
        elif index % 2 == 0 and "descriptive" not in (spec.get("quirks") or []):
            spec["quirks"] = (spec.get("quirks") or []) + ["descriptive"]
        elif index % 8 == 3:
            # a non-tabulated description whose operations are written 'x, y, z'
            spec["quirks"] = ["shifted_origin", "symop_blanks"]
    A = gen_args(rng, is_large(spec))
    ref_mode = ref_mode_for(rng)
    plan = []
    target = 0
    defer = bool(q1 in O.DEFERRABLE and index % 3 == 0)
    worker = 1 if index % 4 == 1 else 0
    if q1:
        plan.append({"h": target, "op": q1, "defer": True} if defer else {"h": target, "op": q1, "thread": worker})
    state = {"i": 0, "plan": plan, "expanded": False}

    def producer(sim, fb):
        if not state["expanded"]:
            if state["i"] < len(state["plan"]):
                state["i"] += 1
                return state["plan"][state["i"] - 1]
            state["expanded"] = True
            choice = sim.world[0].space_group.choice
            other = "toR" if choice == "H" else "toH"
            back = "toH" if choice == "H" else "toR"
            tail = {"switch": [other], "switch2": [other, back], "flip3": ["flip3"], "normH": ["normH"],
                    "normH_tol": ["normH_tol"], "same": [back], "long": ["flip1001", q2, back]}[mut]
            rest = [{"h": target, "op": m} for m in tail]
            if defer:
                rest.append({"h": target, "op": "inspect"})
            rest.append({"h": target, "op": q2, "thread": worker})
            rest += audit_steps(1, rng.sample(FAST_QUERIES, 4 if is_large(spec) else 6))
            state["rest"] = iter(rest)
        return next(state["rest"], None)

    return _drive(spec, A, stratum, index, producer, ref_mode)


# ------------------------------- keyword-argument queries on another crystal
KWP_FIRST = [None, "uc_mols"]
KWP_KW = sorted(O.KW_QUERIES)
KWP_FOLLOW = ["conn", "uc_mols", "sym_mols", "menv"]
KWP_HOW = ["switch", "stranger", "self_switch"]  # how a default-argument recomputation is provoked afterwards
KWP_CONSUMER = {"conn": "as_P1", "uc_mols": "mol_dict", "sym_mols": "charges", "menv": "menv"}
N_KWPAIRS = 2 * len(KWP_FIRST) * len(KWP_KW) * len(KWP_FOLLOW) * len(KWP_HOW)


def kwpair_run(verif_seed, index, stratum="kwpairs"):
    """A look-alike crystal is queried with non-default keyword arguments
    (tolerance, covalent radii); afterwards default-argument queries that must
    recompute (after a setting switch, or on a third crystal) and the keyword
    query itself must still match their fresh counterparts: an option passed
    for one crystal must not become anybody's default."""
    rng = random.Random(run_seed(verif_seed, stratum, index))
    i = index % N_KWPAIRS
    i, how = divmod(i, len(KWP_HOW))
    i, fo = divmod(i, len(KWP_FOLLOW))
    i, kq = divmod(i, len(KWP_KW))
    i, fi = divmod(i, len(KWP_FIRST))
    spec = FORK3_SOURCES[i % 2]
    A = gen_args(rng)
    first, kwq, follow, how = KWP_FIRST[fi], KWP_KW[kq], KWP_FOLLOW[fo], KWP_HOW[how]
    state = {"rest": None}

    def producer(sim, fb):
        if state["rest"] is None:
            choice = sim.world[0].space_group.choice
            other = "toR" if choice == "H" else "toH"
            steps = [{"h": 0, "op": first}] if first else []
            steps += [{"h": 0, "op": "stranger_kw"}, {"h": 1, "op": kwq}]
            if how == "self_switch":
                # the keyword crystal itself changes state: in the new memo
                # lifetime it is asked default-argument consumers only, after
                # the next change the keyword query again
                cons = KWP_CONSUMER[follow]
                back = "toH" if choice == "H" else "toR"
                steps += [{"h": 1, "op": other}, {"h": 1, "op": cons}, {"h": 1, "op": "menv"},
                          {"h": 1, "op": back}]
            elif how == "switch":
                steps += [{"h": 0, "op": other}, {"h": 0, "op": follow}]
            else:
                steps += [{"h": 0, "op": "stranger"}, {"h": 2, "op": follow}]
            steps += [{"h": 1, "op": kwq}, {"h": 1, "op": "uc_mols_kw"}, {"h": 0, "op": follow}, {"h": 0, "op": "conn"}]
            state["rest"] = iter(steps)
        return next(state["rest"], None)

    return _drive(spec, A, stratum, index, producer, ref_mode_for(rng))


# ---------------------------------- several crystals writing one shared file
SHF_SAVE = ["sl_res", "sl_cif", "sl_poscar"]
SHF_FORK = ["deepcopy", "stranger", "reload"]
SHF_MUT = ["normH", "switch"]
N_SHAREDFILE = 2 * len(SHF_SAVE) * len(SHF_FORK) * len(SHF_MUT) * 2


def sharedfile_run(verif_seed, index, stratum="sharedfile"):
    """Two crystal objects take turns saving to the SAME path (as a user does
    who keeps overwriting structure.res): save A, fork, change B, save B,
    save A again, save B again - every saved file must be what a fresh crystal
    with that state would have written and must load back accordingly."""
    rng = random.Random(run_seed(verif_seed, stratum, index))
    i = index % N_SHAREDFILE
    i, rel = divmod(i, 2)
    i, m = divmod(i, len(SHF_MUT))
    i, f = divmod(i, len(SHF_FORK))
    i, sv = divmod(i, len(SHF_SAVE))
    spec = FORK3_SOURCES[i % 2]
    A = gen_args(rng)
    A["shared_dir"], A["relative"] = True, bool(rel)
    save, fork, mut = SHF_SAVE[sv], SHF_FORK[f], SHF_MUT[m]
    state = {"rest": None}

    def producer(sim, fb):
        if state["rest"] is None:
            choice = sim.world[0].space_group.choice
            change = "normH" if mut == "normH" else ("toR" if choice == "H" else "toH")
            steps = [{"h": 0, "op": save}, {"h": 0, "op": fork}, {"h": 1, "op": change}, {"h": 1, "op": save},
                     {"h": 0, "op": save}, {"h": 1, "op": save}, {"h": 0, "op": "res"}, {"h": 1, "op": "res"}]
            state["rest"] = iter(steps)
        return next(state["rest"], None)

    return _drive(spec, A, stratum, index, producer, ref_mode_for(rng))


# ------------------------------------------------ a large derived crystal
BIG_FIRST = [None, "uc_atoms", "uc_mols"]
BIG_MID = [None, "normH"]
BIG_LAST = ["uc_atoms", "slab", "conn", "uc_mols", "sym_mols", "air", "asur", "density", "poscar", "cif", "res", "sl_poscar"]
N_BIG = len(BIG_FIRST) * len(BIG_MID) * len(BIG_LAST)


def big_run(verif_seed, index, stratum="big"):
    """A 2196-site P1 supercell derived from the r3c file joins the world and
    is used on its own: first query, optional mutator, last query asked twice.
    Code paths that only exist beyond a size threshold run nowhere else."""
    rng = random.Random(run_seed(verif_seed, stratum, index))
    i = index % N_BIG
    i, l = divmod(i, len(BIG_LAST))
    i, m = divmod(i, len(BIG_MID))
    first, mid, last = BIG_FIRST[i % len(BIG_FIRST)], BIG_MID[m], BIG_LAST[l]
    spec = {"kind": "file", "name": "r3c_example.cif"}
    A = gen_args(rng, large=True)
    steps = [{"h": 0, "op": "derive_supercell"}]
    steps += [{"h": 1, "op": x} for x in (first, mid) if x]
    steps += [{"h": 1, "op": last}, {"h": 1, "op": last}, {"h": 1, "op": "uc_atoms"}, {"h": 0, "op": "density"}]
    it = iter(steps)
    return _drive(spec, A, stratum, index, lambda sim, fb: next(it, None), ref_mode_for(rng))


# ------------------------------------------- three-object fork patterns
FORK3_FIRST = [None, "uc_mols", "sym_mols"]
FORK3_KINDS = [("deepcopy", "deepcopy"), ("deepcopy", "pickle"), ("pickle", "deepcopy"), ("deepcopy", "reload"), ("stranger", "deepcopy"), ("other", "deepcopy"), ("sibling", "deepcopy"), ("derive_cifdata", "deepcopy"), ("heavy", "deepcopy")]
FORK3_TOPOLOGY = ["star", "chain"]  # both copies of h0 / copy of a copy
FORK3_ORDER = [(0, 1), (1, 0), (0, 2), (2, 0), (1, 2), (2, 1)]  # which two handles are switched, in order
FORK3_SOURCES = [
    {
        "kind": "synthetic", "content": "co", "sg": [161, "H"],
        "cell": [11.5, 11.5, 9.2, 90.0, 90.0, 120.0],
        "elements": ["O", "H", "H", "C", "O"],
        "frac": [[0.12, 0.27, 0.31], [0.2, 0.3, 0.33], [0.08, 0.33, 0.36], [0.45, 0.1, 0.7], [0.53, 0.13, 0.75]],
        "occupation": None, "via": "cif",
    },
    {
        "kind": "synthetic", "content": "co", "sg": [148, "R"],
        "cell": [8.5, 8.5, 8.5, 78.0, 78.0, 78.0],
        "elements": ["C", "O", "O", "H", "H", "O"],
        "frac": [[0.21, 0.33, 0.47], [0.30, 0.40, 0.55], [0.62, 0.71, 0.15],
                 [0.70, 0.76, 0.21], [0.55, 0.78, 0.17], [0.12, 0.26, 0.39]],
        "occupation": None, "via": None,
    },
]  # fmt: skip
FORK3_SOURCES.append(
    {
        "kind": "synthetic", "content": "co", "sg": [33, ""],
        "cell": [9.3, 7.9, 11.2, 90.0, 90.0, 90.0],
        "elements": ["O", "H", "H", "C", "N"],
        "frac": [[0.12, 0.27, 0.31], [0.2, 0.3, 0.33], [0.08, 0.33, 0.36], [0.45, 0.1, 0.7], [0.53, 0.13, 0.75]],
        "occupation": None, "via": "cif", "quirks": ["shifted_origin"], "labels": None,
    }
)  # fmt: skip
# the third source cannot switch its setting: one order of (failing) switches is enough there
FORK3_COMBOS = [
    (si, f, k, t, o)
    for si in range(len(FORK3_SOURCES))
    for f in range(len(FORK3_FIRST))
    for k in range(len(FORK3_KINDS))
    for t in range(len(FORK3_TOPOLOGY))
    for o in range(len(FORK3_ORDER) if si < 2 else 1)
]
N_FORK3 = len(FORK3_COMBOS)


def fork3_of(index):
    si, f, k, t, o = FORK3_COMBOS[index % N_FORK3]
    return FORK3_SOURCES[si], FORK3_FIRST[f], FORK3_KINDS[k], FORK3_TOPOLOGY[t], FORK3_ORDER[o]


def fork3_run(verif_seed, index, stratum="fork3"):
    """Three crystal objects (an original and two copies, or a copy of a copy):
    two of them are switched one after the other, each followed by a query on
    it, then every object is audited. Any two objects alone may behave
    correctly while the third one is served someone else's data."""
    rng = random.Random(run_seed(verif_seed, stratum, index))
    spec, first, (k1, k2), topology, (a, b) = fork3_of(index)
    A = gen_args(rng)
    ref_mode = ref_mode_for(rng)
    q = rng.choice(["uc_atoms", "uc_mols", "menv", "density", "air", "sym_mols", "cif", "sl_cif", "res"])
    state = {"rest": None}

    def producer(sim, fb):
        if state["rest"] is None:
            choice = sim.world[0].space_group.choice
            other = "toR" if choice == "H" else "toH"
            steps = []
            if first:
                steps.append({"h": 0, "op": first})
            steps.append({"h": 0, "op": k1})
            steps.append({"h": 0 if topology == "star" else 1, "op": k2})
            steps += [{"h": a, "op": other}, {"h": a, "op": q}, {"h": b, "op": other}, {"h": b, "op": q}]
            steps += audit_steps(3, [q] + rng.sample(FAST_QUERIES, 3))
            state["rest"] = iter(steps)
        return next(state["rest"], None)

    return _drive(spec, A, stratum, index, producer, ref_mode)


# ----------------------------------------- pairs of less common queries
SLOW = sorted(O.SLOW_QUERIES)
SLOWPAIR_FIRST = [None] + SLOW + ["sym_mols", "deepcopy"]
SLOWPAIR_MID = [None, "switch"]
SLOWPAIR_SOURCES = [
    {"kind": "file", "name": "acetic_acid.cif"},
    {
        "kind": "synthetic", "content": "co", "sg": [148, "R"],
        "cell": [8.5, 8.5, 8.5, 78.0, 78.0, 78.0],
        "elements": ["C", "O", "O", "H", "H", "O"],
        "frac": [[0.21, 0.33, 0.47], [0.30, 0.40, 0.55], [0.62, 0.71, 0.15],
                 [0.70, 0.76, 0.21], [0.55, 0.78, 0.17], [0.12, 0.26, 0.39]],
        "occupation": None, "via": "cif",
    },
]  # fmt: skip
# (source, mid) combinations: a setting switch only where it can succeed
SLOWPAIR_COMBOS = [(0, None), (1, None), (1, "switch")]
N_SLOWPAIRS = len(SLOWPAIR_COMBOS) * len(SLOWPAIR_FIRST) * len(SLOW)


def slowpair_of(index):
    i = index % N_SLOWPAIRS
    i, q = divmod(i, len(SLOW))
    i, p = divmod(i, len(SLOWPAIR_FIRST))
    si, mid = SLOWPAIR_COMBOS[i % len(SLOWPAIR_COMBOS)]
    return SLOWPAIR_SOURCES[si], SLOWPAIR_FIRST[p], mid, SLOW[q]


def slowpair_run(verif_seed, index, stratum="slowpairs"):
    """first (a less common query, a producer or a snapshot) -> optional
    setting switch -> a less common query, asked twice, then a short audit:
    every ordered pair of the expensive queries runs in every batch."""
    rng = random.Random(run_seed(verif_seed, stratum, index))
    spec, first, mid, q = slowpair_of(index)
    A = gen_args(rng)
    A["r"] = rng.choice([3.0, 3.8])
    ref_mode = ref_mode_for(rng)
    state = {"rest": None}

    def producer(sim, fb):
        if state["rest"] is None:
            steps = []
            if first:
                steps.append({"h": 0, "op": first})
            if mid == "switch":
                choice = sim.world[0].space_group.choice
                steps.append({"h": 0, "op": "toR" if choice == "H" else "toH"})
            last = 1 if first == "deepcopy" else 0
            steps += [{"h": last, "op": q}, {"h": last, "op": q}]
            steps += audit_steps(len([0]) + (1 if first == "deepcopy" else 0), rng.sample(FAST_QUERIES, 3))
            state["rest"] = iter(steps)
        return next(state["rest"], None)

    return _drive(spec, A, stratum, index, producer, ref_mode)


# ------------------------------------------------- fault-point templates
INJECT_SOURCES = [
    {"kind": "file", "name": "acetic_acid.cif"},
    {
        "kind": "synthetic", "content": "co", "sg": [148, "H"],
        "cell": [12.0, 12.0, 9.5, 90.0, 90.0, 120.0],
        "elements": ["C", "O", "O", "H", "H"],
        "frac": [[0.21, 0.13, 0.37], [0.30, 0.15, 0.41], [0.58, 0.40, 0.12],
                 [0.64, 0.44, 0.17], [0.52, 0.43, 0.16]],
        "occupation": None, "via": "cif",
    },
    {
        "kind": "synthetic", "content": "co", "sg": [2, ""],
        "cell": [8.0, 9.0, 10.0, 90.0, 90.0, 90.0],
        "elements": ["C", "O", "O", "H", "H"],
        "frac": [[0.7, 0.6, 0.65], [0.841, 0.6, 0.65], [0.2, 0.2, 0.2],
                 [0.319625, 0.2, 0.2], [0.17, 0.303, 0.2]],
        "occupation": None, "via": None,
    },
]  # fmt: skip
INJECT_NTH = ["first", "last"]
INJECT_ALL_CAP = 24  # thorough: every call position 1..24 of every seam in every query
N_INJECT_TEMPLATES = len(INJECT_SOURCES) * len(FAST_QUERIES) * len(INJECT_TARGETS) * len(INJECT_NTH)


def inject_template_of(index):
    i = index % N_INJECT_TEMPLATES
    i, k = divmod(i, len(INJECT_NTH))
    i, t = divmod(i, len(INJECT_TARGETS))
    i, q = divmod(i, len(FAST_QUERIES))
    return INJECT_SOURCES[i % len(INJECT_SOURCES)], FAST_QUERIES[q], INJECT_TARGETS[t], INJECT_NTH[k]


def inject_applicable_for_source(si):
    """Template indices of source `si` whose seam is called at all by their
    query on the fresh source crystal (the others would end at once). The
    memo-populating first step only ever removes calls, so this is a superset
    filter on the safe side: a template is kept whenever the cold query calls
    the seam."""
    from .engine import Sim

    sim = Sim(INJECT_SOURCES[si], gen_args(random.Random(0)))
    try:
        keep = []
        for q, op in enumerate(FAST_QUERIES):
            fn = O.ALL_QUERIES[op][0]
            if fn is None:
                continue
            trial = copy.deepcopy(sim.world[0])
            counts = INJECTOR.probe(lambda: fn(trial, sim.A, {"dir": FS.dir("probe"), "box": {}}))
            for t, target in enumerate(INJECT_TARGETS):
                if counts[target] > 0:
                    base = ((si * len(FAST_QUERIES) + q) * len(INJECT_TARGETS) + t) * len(INJECT_NTH)
                    keep.extend(range(base, base + len(INJECT_NTH)))
        return keep
    finally:
        sim.close()


def inject_template_run(verif_seed, index, stratum="inject", nth_override=None):
    """A query fails at a chosen seam call (first / last call of that seam, or
    an explicit position); afterwards the same query, the label-strict
    composite and a small audit must still match a fresh crystal."""
    rng = random.Random(run_seed(verif_seed, stratum, index))
    spec, op, target, which = inject_template_of(index)
    A = gen_args(rng)
    q0 = rng.choice([None, None, "uc_atoms", "uc_mols", "sym_mols"])
    state = {"phase": 0, "rest": None}

    def producer(sim, fb):
        if state["phase"] == 0:
            state["phase"] = 1
            if q0:
                return {"h": 0, "op": q0}
        if state["phase"] == 1:
            state["phase"] = 2
            fn = O.ALL_QUERIES[op][0]
            if fn is None:
                return None
            trial = copy.deepcopy(sim.world[0])
            n = INJECTOR.probe(lambda: fn(trial, sim.A, {"dir": FS.dir("probe"), "box": {}}))[target]
            if n == 0:
                sim.stats["inject_template:seam_not_called"] += 1
                return None
            nth = nth_override if nth_override is not None else (1 if which == "first" else n)
            if nth > n:
                sim.stats["inject_template:seam_not_called"] += 1
                return None
            tail = [{"h": 0, "op": op}, {"h": 0, "op": "labelled_uc_mols"}]
            tail += audit_steps(1, rng.sample(FAST_QUERIES, 4))
            state["rest"] = iter(tail)
            return {"h": 0, "op": op, "inject": {"target": target, "nth": nth, "exc": "MemoryError"}}
        return next(state["rest"], None)

    return _drive(spec, A, stratum, index, producer)


# ------------------------------------------------------------------ sweep
SWEEP_ALPHABET = [
    "uc_atoms", "slab", "conn", "uc_mols", "sym_mols", "air", "asur", "menv",
    "density", "as_P1", "cif", "poscar", "sl_res", "res",
    "toH", "toR", "normH", "deepcopy", "pickle",
    "toX", "reload", "labelled_uc_mols", "cif_data", "flip3",
]  # fmt: skip
SWEEP_SOURCES = [
    {
        "kind": "synthetic", "content": "co", "sg": [161, "H"],
        "cell": [11.0, 11.0, 9.0, 90.0, 90.0, 120.0],
        "elements": ["O", "H", "H"],
        "frac": [[0.12, 0.27, 0.31], [0.2, 0.3, 0.33], [0.08, 0.33, 0.36]],
        "occupation": None, "via": "cif",
    },
    {
        "kind": "synthetic", "content": "co", "sg": [148, "R"],
        "cell": [8.0, 8.0, 8.0, 75.0, 75.0, 75.0],
        "elements": ["C", "O", "O", "H", "N"],
        "frac": [[0.21, 0.33, 0.47], [0.30, 0.40, 0.55], [0.12, 0.26, 0.39],
                 [0.62, 0.71, 0.15], [0.70, 0.78, 0.2]],
        "occupation": None, "via": None,
    },
    {
        "kind": "synthetic", "content": "messy", "sg": [14, ""],
        "cell": [7.5, 9.1, 10.2, 90.0, 101.0, 90.0],
        "elements": ["O", "H", "H", "C", "O"],
        "frac": [[0.1, 0.2, 0.3], [0.19, 0.24, 0.33], [0.05, 0.28, 0.27],
                 [0.6, 0.7, 0.8], [0.7, 0.74, 0.86]],
        "occupation": None, "via": "res",
    },
]  # fmt: skip
SWEEP_ARGS = {
    "r": 3.0, "origin": [0.3, 0.0, -0.7], "bounds": [[-1, 0, 0], [1, 1, 2]],
    "atoms": [0], "mol_i": 0, "size": [2, 1, 1],
}  # fmt: skip


# the core alphabet is swept COMPLETELY up to length 4 (12^1+..+12^4 = 22 620
# sequences per structure); the wide one completely up to length 3, length 4
# as a seeded-stride sample
SWEEP_CORE = [
    "uc_atoms", "conn", "uc_mols", "sym_mols", "menv", "density", "cif", "sl_res",
    "toH", "toR", "deepcopy", "pickle",
]  # fmt: skip
SWEEP_ALPHABETS = {"wide": SWEEP_ALPHABET, "core": SWEEP_CORE}


def sweep_count(max_len=4, which="wide"):
    n = len(SWEEP_ALPHABETS[which])
    return sum(n ** k for k in range(1, max_len + 1))


def sweep_sequence(index, max_len=4, which="wide"):
    alphabet = SWEEP_ALPHABETS[which]
    n = len(alphabet)
    for k in range(1, max_len + 1):
        if index < n ** k:
            seq = []
            for _ in range(k):
                index, d = divmod(index, n)
                seq.append(alphabet[d])
            return seq[::-1]
        index -= n ** k
    raise IndexError(index)


def sweep_run(source_i, index, max_len=4, which="wide"):
    """Every sequence of length <= max_len over SWEEP_ALPHABET: operations go to
    the newest handle (forks are followed), then every handle is audited."""
    spec = SWEEP_SOURCES[source_i]
    seq = sweep_sequence(index, max_len, which)
    audit_q = ["uc_atoms", "uc_mols", "sym_mols", "menv", "density", "as_P1", "cif", "sl_res", "poscar"]
    state = {"i": 0, "audit": None}

    def producer(sim, fb):
        if state["audit"] is None:
            if state["i"] < len(seq):
                op = seq[state["i"]]
                state["i"] += 1
                # alternate between the newest handle and handle 0 once forked
                hi = (len(sim.world) - 1) if state["i"] % 2 else 0
                return {"h": hi, "op": op}
            state["audit"] = iter(audit_steps(len(sim.world), audit_q))
        return next(state["audit"], None)

    return _drive(spec, dict(SWEEP_ARGS), "sweep%s%d" % ("core" if which == "core" else "", source_i), index, producer)
