"""Fingerprint of process-wide and module-level state.

A history that changed any of it (numpy error/print state, warnings filters,
locale, a module-level container, a class attribute or an lru_cache of the
library) is re-judged against the *isolated* reference, so that a reference
computed in the same - now polluted - process cannot be wrong in the same way
as the crystal under test.
"""
import hashlib
import locale
import logging
import os
import pickle
import sys
import warnings

import numpy as np

CONTAINERS = (dict, list, set, bytearray)


def _h(b):
    return hashlib.blake2b(b, digest_size=8).hexdigest()


def _fp(v, depth=0):
    if isinstance(v, np.ndarray):
        if v.dtype.kind in "OU":
            return "arrO:%s:%s" % (v.shape, _h(repr(v.tolist()).encode()))
        flat = np.ascontiguousarray(v).reshape(-1)
        if flat.nbytes > (1 << 20):
            flat = flat[:: max(1, flat.size // 65536)]
        return "arr:%s:%s:%s" % (v.dtype.str, v.shape, _h(flat.tobytes()))
    if isinstance(v, dict):
        if depth >= 2:
            return "dict:%d" % len(v)
        if len(v) > 64:
            # table of constants: one pickle is much cheaper than a recursive walk
            try:
                return "dict:%d:%s" % (len(v), _h(pickle.dumps(v, 4)))
            except Exception:  # noqa: BLE001
                pass
        try:
            return "dict:%d:%s" % (len(v), _h(repr([(repr(k), _fp(x, depth + 1)) for k, x in v.items()]).encode()))
        except Exception:  # noqa: BLE001
            return "dict:%d" % len(v)
    if isinstance(v, tuple) and depth >= 1:
        try:
            return "t:" + _h(repr(v).encode())
        except Exception:  # noqa: BLE001
            return "t:%d" % len(v)
    if isinstance(v, (list, tuple)):
        if depth >= 2 or len(v) > 4096:
            return "%s:%d" % (type(v).__name__, len(v))
        return "%s:%d:%s" % (type(v).__name__, len(v), _h(repr([_fp(x, depth + 1) for x in v]).encode()))
    if isinstance(v, (set, frozenset)):
        return "set:%d:%s" % (len(v), _h(repr(sorted(repr(x) for x in v)).encode()))
    if isinstance(v, bytearray):
        return "bytes:%s" % _h(bytes(v))
    if v is None or isinstance(v, (str, bytes, int, float, bool, complex)):
        return "v:" + repr(v)[:200]
    if hasattr(v, "cache_info"):
        try:
            ci = v.cache_info()
            return "lru:%d:%d" % (ci.currsize, ci.hits + ci.misses)
        except Exception:  # noqa: BLE001
            return "lru:?"
    return "o:" + type(v).__name__


def _mutable_defaults(fn):
    """Fingerprint of what a function object carries between calls: its mutable
    default arguments (evaluated once) and attributes hung on the function."""
    vals = list(getattr(fn, "__defaults__", None) or ()) + list((getattr(fn, "__kwdefaults__", None) or {}).values())
    vals = [v for v in vals if isinstance(v, (list, dict, set, bytearray, np.ndarray))]
    try:
        attrs = {k: v for k, v in vars(fn).items() if not (k.startswith("__") and k.endswith("__"))}
    except TypeError:
        attrs = {}
    if not vals and not attrs:
        return None
    return _h(repr([_fp(v) for v in vals] + sorted((k, _fp(v)) for k, v in attrs.items())).encode())


def _interesting(v):
    return isinstance(v, CONTAINERS) or isinstance(v, np.ndarray) or hasattr(v, "cache_info") or isinstance(
        v, (bool, int, float, str, type(None))
    )


def snapshot(prefix="chmpy"):
    out = {}
    out["np.geterr"] = repr(sorted(np.geterr().items()))
    po = dict(np.get_printoptions())
    out["np.printoptions"] = repr(sorted((k, repr(v)) for k, v in po.items()))
    out["warnings.filters"] = "%d:%s" % (len(warnings.filters), _h(repr(warnings.filters).encode()))
    out["logging"] = "%s:%s" % (logging.root.level, logging.root.manager.disable)
    try:
        out["locale"] = repr(locale.getlocale())
    except Exception:  # noqa: BLE001
        out["locale"] = "?"
    out["cwd"] = os.getcwd()
    out["environ"] = _h(repr(sorted(os.environ.items())).encode())
    out["recursionlimit"] = str(sys.getrecursionlimit())
    try:
        import decimal

        out["decimal"] = repr(decimal.getcontext())
    except Exception:  # noqa: BLE001
        pass
    for name in sorted(sys.modules):
        if not (name == prefix or name.startswith(prefix + ".")):
            continue
        mod = sys.modules[name]
        if mod is None:
            continue
        for attr, val in list(vars(mod).items()):
            if attr.startswith("__"):
                continue
            if isinstance(val, type):
                if getattr(val, "__module__", None) != name:
                    continue
                for cattr, cval in list(vars(val).items()):
                    if cattr.startswith("__") and cattr.endswith("__"):
                        continue
                    if isinstance(cval, (staticmethod, classmethod)):
                        cval = cval.__func__
                    if isinstance(cval, property):
                        continue
                    if callable(cval) and not hasattr(cval, "cache_info"):
                        d = _mutable_defaults(cval)
                        if d is not None:
                            out["%s.%s.%s.__defaults__" % (name, attr, cattr)] = d
                        continue
                    if _interesting(cval):
                        out["%s.%s.%s" % (name, attr, cattr)] = _fp(cval)
            elif callable(val) and not hasattr(val, "cache_info"):
                d = _mutable_defaults(val)
                if d is not None and getattr(val, "__module__", None) == name:
                    out["%s.%s.__defaults__" % (name, attr)] = d
                continue
            elif _interesting(val):
                out["%s.%s" % (name, attr)] = _fp(val)
    return out


def diff(base, now):
    """Keys whose fingerprint changed, or that appeared on an object that was
    already there (new modules from lazy imports are not a change)."""
    changed = []
    base_modules = {k.rsplit(".", 1)[0] for k in base}
    for k, v in now.items():
        if k in base:
            if base[k] != v:
                changed.append(k)
        elif k.rsplit(".", 1)[0] in base_modules or k.rsplit(".", 2)[0] in base_modules:
            changed.append(k + " (new)")
    for k in base:
        if k not in now:
            changed.append(k + " (gone)")
    return changed
