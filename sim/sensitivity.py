"""Sensitivity self-test: plant one defect at a time in a scratch copy of
chmpy (under /dev/shm, removed immediately), run the quick search against the
copy and expect a violation. Each planted defect still imports and passes the
repository's own tests (checked when they were written)."""
import json
import os
import shutil
import subprocess
import sys
import tempfile
import time

ROOT = os.path.dirname(os.path.dirname(os.path.abspath(__file__)))
CHECK = os.path.join(ROOT, "checks", "c14.py")
REPO_SRC = "/repo/src"

# (name, file, old text, new text, expected violation classes)
PLANTED = [
    (
        "invalidation-misses-bond-graph",
        "chmpy/crystal/crystal.py",
        '            "_unit_cell_atom_dict",\n            "_uc_graph",\n',
        '            "_unit_cell_atom_dict",\n',
        ["STALE_ANSWER", "EXCEPTION_MISMATCH"],
    ),
    (
        "invalidation-only-towards-H",
        "chmpy/crystal/crystal.py",
        "        self._clear_cached_unit_cell_data()\n        # items of a loaded CIF",
        '        if choice == "H":\n            self._clear_cached_unit_cell_data()\n        # items of a loaded CIF',
        ["STALE_ANSWER", "EXCEPTION_MISMATCH"],
    ),
    (
        "normalize-hydrogens-keeps-memos",
        "chmpy/crystal/crystal.py",
        "        self._clear_cached_unit_cell_data()\n        self.asymmetric_unit.positions = self.to_fractional(pos_cart)",
        "        self.asymmetric_unit.positions = self.to_fractional(pos_cart)",
        ["STALE_ANSWER", "EXCEPTION_MISMATCH"],
    ),
    (
        "slab-memoised-ignoring-bounds",
        "chmpy/crystal/crystal.py",
        [
            (
                "        uc_atoms = self.unit_cell_atoms()\n        (hmin, kmin, lmin), (hmax, kmax, lmax) = bounds\n",
                '        if hasattr(self, "_slab"):\n            return self._slab\n        uc_atoms = self.unit_cell_atoms()\n        (hmin, kmin, lmin), (hmax, kmax, lmax) = bounds\n',
            ),
            (
                '        slab_dict["cart_pos"] = self.to_cartesian(pos)\n        return slab_dict\n',
                '        slab_dict["cart_pos"] = self.to_cartesian(pos)\n        self._slab = slab_dict\n        return slab_dict\n',
            ),
        ],
        None,
        None,
    ),
    (
        "query-wraps-sites-in-place",
        "chmpy/crystal/crystal.py",
        "        pos = self.site_positions\n        atoms = self.site_atoms\n        natom = self.nsites\n",
        "        pos = self.site_positions\n        np.fmod(pos + 7.0, 1, out=pos)\n        atoms = self.site_atoms\n        natom = self.nsites\n",
        ["QUERY_MUTATED_STATE", "STALE_ANSWER", "FORK_INTERFERENCE", "REPEAT_DIFFERS"],
    ),
    (
        "supercell-translates-cached-molecules",
        "chmpy/crystal/crystal.py",
        "            for uc_mol in self.unit_cell_molecules():\n                sc_mols.append(\n                    uc_mol.translated(np.asarray([q, r, s]) @ self.unit_cell.lattice)\n                )",
        "            for uc_mol in self.unit_cell_molecules():\n                uc_mol.translate(np.asarray([q, r, s]) @ self.unit_cell.lattice)\n                sc_mols.append(uc_mol)",
        None,
    ),
    (
        "cif-export-keeps-loaded-cell",
        "chmpy/crystal/crystal.py",
        '            cif_data["cell_length_a"] = self.unit_cell.a\n            cif_data["cell_length_b"] = self.unit_cell.b\n            cif_data["cell_length_c"] = self.unit_cell.c\n',
        "",
        ["STALE_ANSWER", "EXCEPTION_MISMATCH"],
    ),
    (
        "memo-published-before-labelling",
        "chmpy/crystal/crystal.py",
        '        LOG.debug("%d symmetry unique molecules", len(molecules))\n',
        '        LOG.debug("%d symmetry unique molecules", len(molecules))\n        setattr(self, "_symmetry_unique_molecules", molecules)\n',
        None,
    ),
    (
        "deepcopy-shares-memos",
        "chmpy/crystal/crystal.py",
        "    def unit_cell_atoms(self, tolerance=1e-2) -> dict:",
        "    def __deepcopy__(self, memo):\n        from copy import deepcopy\n\n        new = Crystal(deepcopy(self.unit_cell, memo), deepcopy(self.space_group, memo),\n                      deepcopy(self.asymmetric_unit, memo))\n        new.properties.update(self.properties)\n        for k, v in self.__dict__.items():\n            if k.startswith('_'):\n                new.__dict__[k] = v\n        return new\n\n    def unit_cell_atoms(self, tolerance=1e-2) -> dict:",
        None,
    ),
]


def run_against(src_dir, seed, workers, random_runs, replays_dir, timeout=1800):
    env = dict(os.environ)
    env["CHMPY_VERIF_SRC"] = src_dir
    env["CHMPY_VERIF_REPLAYS"] = replays_dir
    env["VERIF_SEED"] = str(seed)
    cmd = [sys.executable, CHECK, "--tier", "quick", "--no-evidence", "--random-runs", str(random_runs)]
    if workers:
        cmd += ["--workers", str(workers)]
    p = subprocess.run(cmd, capture_output=True, text=True, env=env, timeout=timeout)
    return p.returncode, p.stdout, p.stderr


def main(seed, workers, only=None, random_runs=600):
    results = []
    failed = False
    for name, rel, old, new, expect in PLANTED:
        if only and name not in only:
            continue
        scratch = tempfile.mkdtemp(prefix="chmpy-verif-", dir="/dev/shm" if os.path.isdir("/dev/shm") else None)
        try:
            shutil.copytree(os.path.join(REPO_SRC, "chmpy"), os.path.join(scratch, "src", "chmpy"))
            path = os.path.join(scratch, "src", rel)
            text = open(path).read()
            edits = old if isinstance(old, list) else [(old, new)]
            bad = [o for o, _ in edits if text.count(o) != 1]
            if bad:
                print("sensitivity %-40s SKIPPED: anchor text not found exactly once (source changed)" % name)
                results.append({"defect": name, "status": "anchor_not_found"})
                failed = True
                continue
            for o, n_ in edits:
                text = text.replace(o, n_)
            open(path, "w").write(text)
            t = time.time()
            rc, out, err = run_against(os.path.join(scratch, "src"), seed, workers, random_runs, os.path.join(scratch, "replays"))
            sigs = [l for l in out.splitlines() if l.startswith("violation:")]
            classes = sorted({l.split("class=")[1].split()[0] for l in sigs})
            ok = rc == 1 and (expect is None or any(c in expect for c in classes))
            print("sensitivity %-40s %s rc=%d classes=%s %.0fs" % (name, "DETECTED" if ok else "MISSED", rc, classes, time.time() - t))
            if not ok:
                failed = True
                sys.stdout.write(out[-1500:] + err[-1500:])
            results.append({"defect": name, "detected": ok, "rc": rc, "classes": classes, "wall_s": round(time.time() - t, 1),
                            "signatures": sigs[:4]})
        finally:
            shutil.rmtree(scratch, ignore_errors=True)
    out_path = os.path.join(ROOT, "evidence", "sensitivity.json")
    with open(out_path, "w") as f:
        json.dump({"seed": seed, "random_runs": random_runs, "results": results}, f, indent=1)
    return 2 if failed else 0
