"""Operation alphabet: every item is a public `Crystal` API call (or a short
fixed composition of such calls). `A` is the per-run argument table — the
property's proviso is that a query is always issued with the same arguments,
so one tuple per query kind is drawn per run and reused.
"""
import copy
import pickle

import numpy as np

from chmpy import Crystal


class Unsupported(Exception):
    """The operation cannot be performed in this environment (never a violation)."""


# ------------------------------------------------------------------ queries
def q_uc_atoms(c, A, ctx):
    return c.unit_cell_atoms()


# ---- the *type* of an argument is the caller's choice too (always the same
# one for a given crystal): lists, tuples, integer/float arrays, a slice for a
# contiguous atom group, a row view of a larger array for a point
def _bounds_arg(A):
    lo, hi = list(A["bounds"][0]), list(A["bounds"][1])
    style = A.get("arg_style")
    if style == "alt":
        return (tuple(lo), tuple(hi))
    if style == "alt2":
        return np.array([lo, hi])
    return [lo, hi]


def _origin_arg(A):
    style = A.get("arg_style")
    if style == "alt":
        return [float(x) for x in A["origin"]]
    if style == "alt2":
        return np.array([A["origin"], [9.0, 9.0, 9.0]], dtype=float)[0]
    return np.array(A["origin"], dtype=float)


def _atoms_arg(A):
    atoms = sorted(A["atoms"])
    style = A.get("arg_style")
    if style == "alt":
        return slice(atoms[0], atoms[-1] + 1)
    if style == "alt2":
        return np.array(atoms)
    return list(atoms)


def q_slab(c, A, ctx):
    bounds = _kept(ctx, "bounds", lambda: _bounds_arg(A))
    return c.slab(bounds=bounds)


def q_conn(c, A, ctx):
    return c.unit_cell_connectivity()


def q_uc_mols(c, A, ctx):
    return c.unit_cell_molecules()


def q_sym_mols(c, A, ctx):
    return c.symmetry_unique_molecules()


def q_labelled_uc_mols(c, A, ctx):
    # composite query: after symmetry_unique_molecules() every unit-cell
    # molecule must carry its label, so here the labels are compared strictly
    # (elsewhere asym_mol_idx is a lazily added annotation, see normal.same)
    c.symmetry_unique_molecules()
    mols = c.unit_cell_molecules()
    return {"molecules": mols, "labels": [m.properties.get("asym_mol_idx", "missing") for m in mols]}


def q_mol_dict(c, A, ctx):
    return c.molecule_dict()


def q_air(c, A, ctx):
    origin = _kept(ctx, "origin", lambda: _origin_arg(A))
    return c.atoms_in_radius(A["r"], origin=origin)


def q_asur(c, A, ctx):
    return c.atomic_surroundings(A["r"])


def _kept(ctx, key, make):
    """An argument object the caller creates once and passes every time."""
    box = ctx.setdefault("box", {})
    if key not in box:
        box[key] = make()
    return box[key]


def q_agsur(c, A, ctx):
    # the same list object on every call (the library must not edit its arguments)
    return c.atom_group_surroundings(_kept(ctx, "atoms", lambda: _atoms_arg(A)), A["r"])


def q_menv1(c, A, ctx):
    mols = c.symmetry_unique_molecules()
    return c.molecule_environment(mols[A["mol_i"] % len(mols)], radius=A["r"])


def q_menv_held(c, A, ctx):
    # the caller keeps the molecule it got the first time and passes the SAME
    # object back in later on - also after the crystal has changed, and also to
    # a copy of the crystal
    box = ctx.setdefault("box", {})
    if "mol" not in box:
        mols = c.symmetry_unique_molecules()
        box["mol"] = mols[A["mol_i"] % len(mols)]
    return c.molecule_environment(box["mol"], radius=A["r"])


def q_menv(c, A, ctx):
    return c.molecule_environments(A["r"])


def q_density(c, A, ctx):
    return c.density


def q_charges(c, A, ctx):
    return c.asymmetric_unit_partial_charges()


def q_as_P1(c, A, ctx):
    return c.as_P1()


def q_supercell(c, A, ctx):
    return c.as_P1_supercell(tuple(A["size"]))


def q_transl(c, A, ctx):
    return c.to_translational_symmetry(tuple(A["size"]))


def q_res(c, A, ctx):
    return c.to_shelx_string()


def q_cartsym(c, A, ctx):
    return c.cartesian_symmetry_operations()


def q_repr(c, A, ctx):
    return [repr(c), c.titl, c.name, [str(x) for x in c.site_labels], c.nsites]


def q_touch_mols(c, A, ctx):
    # read-only use of the objects a query handed out: derived properties of
    # every returned molecule (they may be cached inside the molecule)
    out = []
    for m in c.unit_cell_molecules():
        out.append([m.molecular_formula, m.center_of_mass, m.centroid, len(m), repr(m),
                    float(np.sum(m.distance_matrix)), m.positions.mean(axis=0)])
    return out


def q_mol_api(c, A, ctx):
    # the rest of Molecule's read-only API, used on molecules the crystal
    # handed out (none of these calls may change the molecule: copies are
    # returned by translated/rotated/transformed/oriented/mask)
    import os
    from pathlib import Path

    pts = np.array([[0.0, 0.0, 0.0], [1.0, 2.0, 3.0]])
    rot = np.array([[0.0, 1.0, 0.0], [-1.0, 0.0, 0.0], [0.0, 0.0, 1.0]])
    mols = c.symmetry_unique_molecules()
    out = []
    for k, m in enumerate(mols[:3]):
        path = os.path.join(ctx["dir"], "mol%d.xyz" % k)
        m.save(path)
        out.append({
            "xyz": m.to_xyz_string(), "sdf": m.to_sdf_string(), "file": Path(path).read_text(),
            "bbox": [m.bbox_corners, m.bbox_size], "inertia": m.inertia_tensor(),
            "pmi": m.principle_moments_of_inertia(), "axes": m.axes(),
            "frame": m.positions_in_molecular_axis_frame(), "bonds": [list(map(float, b)) for b in m.unique_bonds],
            "fragments": [len(f) for f in m.connected_fragments()],
            "oriented": m.oriented().positions, "translated": m.translated(np.array([1.0, 2.0, 3.0])).positions,
            "rotated": m.rotated(rot, origin=(0, 0, 0)).positions,
            "transformed": m.transformed(rotation=rot, translation=np.array([1.0, 0.0, 0.0])).positions,
            "masked": m.mask(np.arange(len(m)) < 2).positions,
            # the same helpers with other argument patterns
            "shift_only": m.transformed(translation=np.array([1.0, 0.0, 0.0])).positions,
            "rot_only": m.transformed(rotation=rot).positions, "rot_default_origin": m.rotated(rot).positions,
            "no_op": m.transformed().positions,
            "asym_symops": m.asym_symops, "charges": m.partial_charges, "dipole": m.molecular_dipole_moment,
            "esp": m.electrostatic_potential(pts), "to_next": m.distance_to(mols[(k + 1) % len(mols)]),
            "name": m.name, "sd": m.shape_descriptors(l_max=2),
        })  # fmt: skip
    return out


def _public_properties(obj):
    """Every public property of a state object, read the way a user would
    (a getter that raises is an answer too)."""
    import inspect

    out = {}
    for name in sorted(dir(type(obj))):
        if name.startswith("_") or not isinstance(inspect.getattr_static(type(obj), name), property):
            continue
        try:
            out[name] = getattr(obj, name)
        except Exception as e:  # noqa: BLE001
            out[name] = "raised:" + type(e).__name__
    return out


def _try(f):
    try:
        return f()
    except Exception as e:  # noqa: BLE001
        return "raised:" + type(e).__name__


def q_accessors(c, A, ctx):
    pts = np.array([[0.1, 0.2, 0.3], [1.5, -0.25, 0.75]])
    sg, uc, au = c.space_group, c.unit_cell, c.asymmetric_unit
    ops_api = [[_public_properties(s), _try(lambda s=s: int(s.inverted().integer_code)), _try(s.is_identity),
                _try(lambda s=s: s.apply(pts)), repr(s)] for s in list(sg.symmetry_operations)[:6]]
    objects = {
        # the read-only API of the state objects themselves
        "space_group": [_public_properties(sg), _try(sg.crystal17_spacegroup_symbol),
                        _try(sg.has_hexagonal_rhombohedral_choices),
                        _try(lambda: [int(s.integer_code) for s in sg.ordered_symmetry_operations()]),
                        _try(lambda: [int(s.integer_code) for s in sg.reduced_symmetry_operations()]),
                        _try(lambda: sg.apply_all_symops(pts)), repr(sg), len(sg)],
        "operations": ops_api,
        "unit_cell": [_public_properties(uc), _try(uc.volume), repr(uc),
                      [_try(lambda k=k: getattr(uc, k)) for k in ("cell_type", "cell_type_index", "unique_parameters",
                                                                   "unique_parameters_deg", "lengths", "angles",
                                                                   "direct", "inverse")]],
        "asymmetric_unit": [_public_properties(au), repr(au), len(au), au.atomic_numbers, au.positions,
                            [str(x) for x in au.labels]],
    }
    return {
        "objects": objects,
        "site_positions": c.site_positions, "site_atoms": c.site_atoms, "nsites": c.nsites,
        "site_labels": [str(x) for x in c.site_labels],
        "symops": [int(s.integer_code) for s in c.symmetry_operations],
        "symop_strings": [str(s) for s in c.symmetry_operations],
        "cart": c.to_cartesian(pts), "frac": c.to_fractional(pts),
        "sg": [c.sg.symbol, c.sg.full_symbol, c.sg.crystal_system, c.sg.lattice_type, int(c.sg.latt), len(c.sg)],
        "uc": [c.uc.volume(), list(map(float, c.uc.parameters)), c.uc.cell_type],
        "formula": c.asym.formula, "name": [c.name, c.id, c.titl],
    }


def q_cif(c, A, ctx):
    # exported text is compared through what it parses back to (a loaded
    # crystal legitimately carries extra CIF items a fresh one does not); for
    # a crystal that was NOT born from a CIF the text itself is compared too
    text = c.to_cif_string()
    parsed = Crystal.from_cif_string(text)
    if ctx.get("cif_text"):
        return {"parsed": parsed, "text": text}
    return parsed


def q_cif_data(c, A, ctx):
    (name, data), = c.to_cif_data().items()
    return Crystal.from_cif_data(dict(data), titl=name)


def q_gulp(c, A, ctx):
    # exporters that live in the format modules rather than on Crystal
    from chmpy.fmt.gulp import crystal_to_gulp_input

    return crystal_to_gulp_input(c)


def q_crystal17(c, A, ctx):
    from chmpy.fmt.crystal17 import to_crystal17_input

    return to_crystal17_input(c)


def q_turbomole(c, A, ctx):
    from chmpy.fmt.xtb import crystal_to_turbomole_string

    return crystal_to_turbomole_string(c)


def q_poscar(c, A, ctx):
    return c.to_poscar_string()


def _saveload(c, A, ctx, name, with_text=True, save_kw=None, load_kw=None):
    """save() to a file (the same path every time for a given handle, as a
    user overwriting their file would) and load() it back. For .res / POSCAR
    the file's text is part of the answer too; a CIF written from a loaded
    crystal legitimately carries extra items, so only what it parses to counts."""
    import os
    from pathlib import Path

    if A.get("path_objects"):
        name = Path(name)
    if A.get("relative"):
        # the caller works inside the handle's directory and uses relative
        # file names (the working directory is part of the environment)
        back = os.getcwd()
        os.chdir(ctx["dir"])
        try:
            c.save(name, **(save_kw or {}))
            loaded = Crystal.load(name, **(load_kw or {}))
            text = Path(name).read_text() if with_text else None
        finally:
            os.chdir(back)
    else:
        p = Path(ctx["dir"]) / name if A.get("path_objects") else "%s/%s" % (ctx["dir"], name)
        c.save(p, **(save_kw or {}))
        loaded = Crystal.load(p, **(load_kw or {}))
        text = Path(p).read_text() if with_text else None
    if not with_text:
        return loaded
    return {"loaded": loaded, "text": text}


def q_sl_cif(c, A, ctx):
    return _saveload(c, A, ctx, "x.cif", with_text=False)


def q_sl_cif_named(c, A, ctx):
    # a keyword of the export, the same one every time
    return _saveload(c, A, ctx, "named.cif", with_text=False, save_kw={"data_block_name": "trial_7"})


def q_sl_fmt(c, A, ctx):
    # format chosen by keyword instead of by the file name
    return _saveload(c, A, ctx, "y.dat", save_kw={"fmt": "res"}, load_kw={"fmt": "res"})


def q_vasp_inputs(c, A, ctx):
    # module-level exporter that writes a directory of input files
    import os
    from pathlib import Path
    from chmpy.ext.vasp import generate_vasp_inputs

    dest = os.path.join(ctx["dir"], "vasp_in")
    generate_vasp_inputs(c, Path(dest) if A.get("path_objects") else dest)
    return {n: Path(dest, n).read_text() for n in sorted(os.listdir(dest))}


def q_wolf_q(c, A, ctx):
    # a function of another module that takes the crystal plus an argument of
    # its own (explicit charges - the same ones every time)
    from chmpy.core.wolf import wolf_sum

    n = len(c.asymmetric_unit)
    return wolf_sum(c, cutoff=min(A["r"], 4.5), charges=np.linspace(-0.4, 0.4, n))


def q_sl_res(c, A, ctx):
    return _saveload(c, A, ctx, "x.res")


def q_sl_poscar(c, A, ctx):
    return _saveload(c, A, ctx, "POSCAR")


def q_sl_contcar(c, A, ctx):
    return _saveload(c, A, ctx, "sub/CONTCAR")


def q_shape(c, A, ctx):
    return c.molecular_shape_descriptors(l_max=2, radius=A["r"])


def q_shell(c, A, ctx):
    return c.molecular_shell(mol_idx=0, radius=min(A["r"], 3.8))


def q_dimers(c, A, ctx):
    unique, per_mol = c.symmetry_unique_dimers(radius=min(A["r"], 3.8))
    # incl. the read-only API of the Dimer objects handed out (their molecules
    # are the crystal's own memoised ones)
    return [
        [[d.a, d.b, float(d.separation), d.separations, d.transform_string(), repr(d), d.supermolecule()]
         for d in unique],
        [[[int(i), float(d.separation)] for i, d in row] for row in per_mol],
        [[d.a, d.b] for d in unique[:2]],
    ]  # fmt: skip


def q_ani(c, A, ctx):
    # another class built from a crystal (on the pinned tree it asks the
    # crystal for a method that does not exist, on both sides)
    from chmpy.descriptors.symmetry_function_ani1 import SymmetryFunctionsANI1

    return SymmetryFunctionsANI1.from_crystal(c).as_flat_matrix()


def q_wulff(c, A, ctx):
    # classes of the library that are built *from* a crystal
    from chmpy.crystal.wulff import WulffConstruction
    from chmpy.fmt.gmf import GMF

    hkl = np.array([[1, 0, 0], [0, 1, 0], [0, 0, 1], [1, 1, 0], [1, 0, 1], [0, 1, 1], [1, 1, 1], [2, 1, 0]])
    energies = np.array([0.9, 1.0, 1.1, 1.3, 1.25, 1.4, 1.5, 1.7])
    w = WulffConstruction.from_gmf_and_crystal(GMF(hkl=hkl, cuts=np.zeros(len(hkl)), energies=energies), c)
    return {"normals": w.facet_normals, "energies": w.facet_energies, "vertices": w.wulff_vertices,
            "facets": [list(map(int, f)) for f in w.wulff_facets], "repr": repr(w)}


def q_reflections(c, A, ctx):
    return c.unique_reflections()


def q_sfac(c, A, ctx):
    return c.structure_factors()


def q_powder(c, A, ctx):
    return c.powder_pattern()


def q_void(c, A, ctx):
    return c.void_surface(separation=1.0)


def q_scene(c, A, ctx):
    return c.mesh_scene()


def q_nn_info(c, A, ctx):
    pts = np.array([[0.0, 0.0, 0.0], [1.0, 2.0, 3.0], [-2.0, 0.5, 4.0]])
    info, idx = c.nearest_neighbour_info(pts, radius=min(A["r"], 3.8))
    return [[list(n) for n in info], idx]


def q_mol_sd(c, A, ctx):
    mols = c.symmetry_unique_molecules()
    return c.molecule_shape_descriptors(mols[A["mol_i"] % len(mols)], l_max=2, radius=A["r"])


def q_atomic_sd(c, A, ctx):
    return c.atomic_shape_descriptors(l_max=2, radius=min(A["r"], 3.8))


def q_group_sd(c, A, ctx):
    return c.shape_descriptors(kind="atom group", atoms=_kept(ctx, "atoms", lambda: _atoms_arg(A)), l_max=2,
                               radius=min(A["r"], 3.8))


def q_fgroup(c, A, ctx):
    # needs graph_tool for the sub-structure match; without it the call raises
    # for the used and the fresh crystal alike - after it built the molecules
    return c.functional_group_shape_descriptors(l_max=2, radius=min(A["r"], 3.8), kind="carboxylic_acid")


def _meshes(surfaces):
    return [[np.asarray(m.vertices), np.asarray(m.faces)] for m in surfaces]


def q_hirsh(c, A, ctx):
    # isosurfaces need the optional plotting stack; where it is absent both sides raise part-way
    return _meshes(c.hirshfeld_surfaces(separation=1.0))


def q_promol(c, A, ctx):
    return _meshes(c.promolecule_density_isosurfaces(separation=1.0))


# ---- how an answer is *read* (applied when the answer is normalised, which
# for deferred inspection is later than the call): the documented members of
# the per-site tables are accessed by key, as a user would
ATOM_TABLE_KEYS = ("asym_atom", "frac_pos", "cart_pos", "element", "symop", "label", "occupation")


def read_atom_table(d):
    out = dict(d.items()) if hasattr(d, "items") else d
    if isinstance(out, dict):
        for k in ATOM_TABLE_KEYS:
            try:
                out[k] = d[k]
            except KeyError:
                pass
    return out


READERS = {"uc_atoms": read_atom_table, "slab": read_atom_table, "air": read_atom_table}
# queries whose answer may be held and only read later (they hand out library-owned objects)
DEFERRABLE = ["uc_atoms", "slab", "conn", "uc_mols", "sym_mols", "mol_dict", "air", "asur", "menv", "as_P1", "supercell"]


# ---- the same three queries issued with non-default keyword arguments. They
# are only ever asked of handles created as "keyword" crystals, which in turn
# never receive a default-argument query that builds the bond graph: every
# query of a crystal is always issued with the same arguments (the proviso).
def _kw(A):
    prof = A.get("kw") or {"tolerance": 0.25, "covalent_radii": {"8": 1.3}}
    return prof["tolerance"], {int(k): float(v) for k, v in prof["covalent_radii"].items()}


def q_conn_kw(c, A, ctx):
    tol, radii = _kw(A)
    return c.unit_cell_connectivity(tolerance=tol, covalent_radii=radii)


def q_uc_mols_kw(c, A, ctx):
    tol, radii = _kw(A)
    return c.unit_cell_molecules(bond_tolerance=tol, covalent_radii=radii)


def q_sym_mols_kw(c, A, ctx):
    tol, radii = _kw(A)
    return c.symmetry_unique_molecules(bond_tolerance=tol, covalent_radii=radii)


KW_QUERIES = {
    "conn_kw": (q_conn_kw, "P"),
    "uc_mols_kw": (q_uc_mols_kw, "P"),
    "sym_mols_kw": (q_sym_mols_kw, "P"),
}
# queries that may be asked of a keyword crystal (they never build the bond graph with default arguments)
KW_SAFE = ["uc_atoms", "slab", "air", "asur", "density", "res", "cartsym", "repr", "accessors", "cif", "cif_data",
           "gulp", "crystal17", "turbomole", "cif_twin", "sl_cif_named", "sl_fmt", "vasp_inputs",
           "poscar", "sl_cif", "sl_res", "sl_poscar", "sl_contcar"]  # fmt: skip


# default-argument queries that consume the bond graph without being the same
# query as one of the keyword ones; a keyword crystal may be asked them in a
# memo lifetime (the span between two state changes) in which no keyword query
# was issued - and the other way round
KW_DEFAULT_CONSUMERS = ["menv", "as_P1", "supercell", "transl", "charges", "mol_dict"]
# state changes a keyword crystal may undergo (the normalisation builds a bond
# graph of its own with default arguments and may leave it behind when it raises)
KW_MUTATORS = ["toH", "toR", "toX", "flip2", "flip3", "flip1001"]


# name -> (function, role) ; role: P = populates memos, C = consumes memos,
# N = memo free (control group), X = export
QUERIES = {
    "uc_atoms": (q_uc_atoms, "P"),
    "slab": (q_slab, "P"),
    "conn": (q_conn, "P"),
    "uc_mols": (q_uc_mols, "P"),
    "sym_mols": (q_sym_mols, "P"),
    "labelled_uc_mols": (q_labelled_uc_mols, "P"),
    "mol_dict": (q_mol_dict, "C"),
    "air": (q_air, "C"),
    "asur": (q_asur, "C"),
    "agsur": (q_agsur, "C"),
    "menv1": (q_menv1, "C"),
    "menv": (q_menv, "C"),
    "menv_held": (q_menv_held, "C"),
    "density": (q_density, "C"),
    "charges": (q_charges, "C"),
    "as_P1": (q_as_P1, "C"),
    "supercell": (q_supercell, "C"),
    "transl": (q_transl, "C"),
    "res": (q_res, "N"),
    "cartsym": (q_cartsym, "N"),
    "repr": (q_repr, "N"),
    "accessors": (q_accessors, "N"),
    "touch_mols": (q_touch_mols, "C"),
    "mol_api": (q_mol_api, "C"),
    "cif": (q_cif, "X"),
    "cif_data": (q_cif_data, "X"),
    "poscar": (q_poscar, "X"),
    # judged by the engine itself: the CIF text of a CIF-born crystal against
    # a twin loaded from the same source and taken through the same state changes only
    "cif_twin": (None, "X"),
    "gulp": (q_gulp, "X"),
    "crystal17": (q_crystal17, "X"),
    "turbomole": (q_turbomole, "X"),
    "sl_cif": (q_sl_cif, "X"),
    "sl_res": (q_sl_res, "X"),
    "sl_cif_named": (q_sl_cif_named, "X"),
    "sl_fmt": (q_sl_fmt, "X"),
    "vasp_inputs": (q_vasp_inputs, "X"),
    "wolf_q": (q_wolf_q, "C"),
    "sl_poscar": (q_sl_poscar, "X"),
    "sl_contcar": (q_sl_contcar, "X"),
}
# slow queries: only scheduled on small structures, at low weight
SLOW_QUERIES = {
    "shape": (q_shape, "C"),
    "shell": (q_shell, "C"),
    "dimers": (q_dimers, "C"),
    "reflections": (q_reflections, "N"),
    "sfac": (q_sfac, "C"),
    "powder": (q_powder, "C"),
    "void": (q_void, "C"),
    "scene": (q_scene, "C"),
    "nn_info": (q_nn_info, "C"),
    "mol_sd": (q_mol_sd, "C"),
    "wulff": (q_wulff, "N"),
    "ani": (q_ani, "C"),
    "atomic_sd": (q_atomic_sd, "C"),
    "group_sd": (q_group_sd, "C"),
    "fgroup": (q_fgroup, "C"),
    "hirsh": (q_hirsh, "C"),
    "promol": (q_promol, "C"),
}
ALL_QUERIES = dict(QUERIES)
ALL_QUERIES.update(SLOW_QUERIES)
ALL_QUERIES.update(KW_QUERIES)


# ----------------------------------------------------------------- mutators
def m_toH(c, A, ctx):
    c.choose_trigonal_lattice("H")


def m_toR(c, A, ctx):
    c.choose_trigonal_lattice("R")


def m_normH(c, A, ctx):
    c.normalize_hydrogen_bondlengths()


def m_toX(c, A, ctx):
    # an invalid choice: raises, and like every state-changing operation that
    # raises it may leave any state behind - later answers must match it
    c.choose_trigonal_lattice("X")


def _flip(c, n):
    # n setting switches in immediate succession (no other call in between)
    for _ in range(n):
        c.choose_trigonal_lattice("R" if c.space_group.choice == "H" else "H")


def m_flip2(c, A, ctx):
    _flip(c, 2)


def m_flip3(c, A, ctx):
    _flip(c, 3)


def m_flip1001(c, A, ctx):
    # a long life: a thousand and one effective state changes on one object
    _flip(c, 1001)


def m_normH_tol(c, A, ctx):
    # the state-changing operation with its own, non-default argument
    c.normalize_hydrogen_bondlengths(bond_tolerance=0.9)


MUTATORS = {"toH": m_toH, "toR": m_toR, "normH": m_normH, "toX": m_toX, "flip2": m_flip2, "flip3": m_flip3,
            "normH_tol": m_normH_tol, "flip1001": m_flip1001}


# ------------------------------------------------ operations meant to raise

def f_bad_save(c, A, ctx):
    c.save("%s/x.unknown" % ctx["dir"])


def f_bad_group(c, A, ctx):
    c.atom_group_surroundings([10 ** 6], A["r"])


def f_bad_load(c, A, ctx):
    Crystal.load("%s/never_written.cif" % ctx["dir"])


RAISERS = {
    "bad_save": f_bad_save,
    "bad_group": f_bad_group,
    "bad_load": f_bad_load,
}

# --------------------------------------------------------------------- forks
def fork_deepcopy(c):
    return copy.deepcopy(c)


def fork_pickle(c):
    try:
        blob = pickle.dumps(c)
    except Exception as e:
        raise Unsupported("pickle.dumps: %s" % type(e).__name__)
    return pickle.loads(blob)


def derive_P1(c):
    # a crystal derived from this one and then used on its own
    return c.as_P1()


def derive_cif(c):
    return Crystal.from_cif_string(c.to_cif_string())


def derive_res(c):
    return Crystal.from_shelx_string(c.to_shelx_string(), titl=c.titl)


def derive_supercell(c):
    # a large P1 crystal (thousands of sites when the parent is big):
    # code paths that only exist beyond a size threshold
    return c.as_P1_supercell((2, 1, 1))


def derive_from_molecule(c):
    # an answer of one crystal (a molecule it handed out) goes into the
    # constructor of another crystal
    return Crystal.from_molecule(c.symmetry_unique_molecules()[0])


FORKS = {"deepcopy": fork_deepcopy, "pickle": fork_pickle}
# derived handles: new crystals computed from a handle (different state allowed)
DERIVES = {"derive_P1": derive_P1, "derive_cif": derive_cif, "derive_res": derive_res, "derive_supercell": derive_supercell,
           "derive_from_molecule": derive_from_molecule}

WRITE_FAULT_TARGETS = {"cif": "f.cif", "res": "f.res", "poscar": "POSCAR"}


def classify_api():
    """Public callables of Crystal that no table above exercises."""
    covered = {
        "unit_cell_atoms", "slab", "unit_cell_connectivity", "unit_cell_molecules",
        "symmetry_unique_molecules", "molecule_dict", "atoms_in_radius",
        "atomic_surroundings", "atom_group_surroundings", "molecule_environment",
        "molecule_environments", "asymmetric_unit_partial_charges", "as_P1",
        "as_P1_supercell", "to_translational_symmetry", "to_shelx_string",
        "cartesian_symmetry_operations", "to_cif_string", "to_cif_data",
        "to_poscar_string", "save", "load", "to_cif_file", "to_shelx_file",
        "to_poscar_file", "from_cif_file", "from_cif_string", "from_cif_data",
        "from_shelx_file", "from_shelx_string", "from_vasp_file", "from_vasp_string",
        "choose_trigonal_lattice", "normalize_hydrogen_bondlengths",
        "molecular_shape_descriptors", "molecular_shell", "symmetry_unique_dimers",
        "to_cartesian", "to_fractional", "unique_reflections", "structure_factors", "powder_pattern",
        "void_surface", "mesh_scene", "nearest_neighbour_info", "molecule_shape_descriptors",
        "from_pdb_file", "from_gen_file", "from_gen_string",
    }  # fmt: skip
    out = []
    for name in sorted(dir(Crystal)):
        if name.startswith("_"):
            continue
        attr = getattr(Crystal, name)
        if callable(attr) and name not in covered:
            out.append(name)
    return out
