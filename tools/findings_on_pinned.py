#!/venv/bin/python
"""Replay the regression histories under findings/ against the PINNED tree (the
commit before the fix: commits) in a scratch copy under /dev/shm, with the
current engine: each must still fail there. usage: findings_on_pinned.py [commit]"""
import glob, os, shutil, subprocess, sys, tempfile
ROOT = os.path.dirname(os.path.dirname(os.path.abspath(__file__)))
commit = sys.argv[1] if len(sys.argv) > 1 else "f2ce17f"
scratch = tempfile.mkdtemp(prefix="chmpy-verif-pinned-", dir="/dev/shm")
bad = 0
try:
    tar = subprocess.run(["git", "-C", "/repo", "archive", commit, "src"], capture_output=True, check=True).stdout
    subprocess.run(["tar", "-x", "-C", scratch], input=tar, check=True)
    for dirpath, _, files in os.walk("/repo/src"):
        for f in files:
            if f.endswith(".so"):
                rel = os.path.relpath(os.path.join(dirpath, f), "/repo")
                shutil.copy(os.path.join("/repo", rel), os.path.join(scratch, rel))
    env = dict(os.environ, CHMPY_VERIF_SRC=os.path.join(scratch, "src"))
    for path in sorted(glob.glob(os.path.join(ROOT, "findings", "*.json"))):
        p = subprocess.run([sys.executable, os.path.join(ROOT, "checks", "c14.py"), "--replay", path], env=env, capture_output=True, text=True)
        first = (p.stdout.splitlines() or [""])[0]
        print("%-60s exit=%d %s" % (os.path.basename(path), p.returncode, first[:150]))
        bad += p.returncode != 1
finally:
    shutil.rmtree(scratch, ignore_errors=True)
print("%d finding(s) did not fail on %s" % (bad, commit))
sys.exit(1 if bad else 0)
