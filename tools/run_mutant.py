#!/venv/bin/python
"""Run the C14 check against /repo's sources with a patch applied in a scratch
copy (under /dev/shm, removed afterwards). usage: run_mutant.py patch.diff [quick|thorough] [extra check args]"""
import os, shutil, subprocess, sys, tempfile, time
ROOT = os.path.dirname(os.path.dirname(os.path.abspath(__file__)))
patch = os.path.abspath(sys.argv[1])
tier = sys.argv[2] if len(sys.argv) > 2 else "quick"
extra = sys.argv[3:]
scratch = tempfile.mkdtemp(prefix="chmpy-verif-mut-", dir="/dev/shm")
try:
    shutil.copytree("/repo/src", os.path.join(scratch, "src"))
    p = subprocess.run(["patch", "-p1", "-s", "-i", patch], cwd=scratch, capture_output=True, text=True)
    if p.returncode != 0:
        print("patch failed:", p.stdout, p.stderr); sys.exit(3)
    env = dict(os.environ, CHMPY_VERIF_SRC=os.path.join(scratch, "src"), CHMPY_VERIF_REPLAYS=os.path.join(scratch, "replays"))
    t = time.time()
    p = subprocess.run([sys.executable, os.path.join(ROOT, "checks", "c14.py"), "--tier", tier, "--no-evidence"] + extra, env=env, capture_output=True, text=True)
    print(p.stdout[-3000:]); print(p.stderr[-1500:])
    print("exit", p.returncode, "wall %.0fs" % (time.time() - t))
    sys.exit(p.returncode)
finally:
    shutil.rmtree(scratch, ignore_errors=True)
