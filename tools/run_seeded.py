#!/venv/bin/python
"""Run the C14 quick check against every seeded change under /verif/seeded
(each applied to a scratch copy of /repo/src under /dev/shm) and record the
outcome in seeded/<id>/meta.json. usage: run_seeded.py [id-prefix ...]"""
import json
import os
import shutil
import subprocess
import sys
import tempfile
import time

ROOT = os.path.dirname(os.path.dirname(os.path.abspath(__file__)))
SEEDED = os.path.join(ROOT, "seeded")
CHECK = os.path.join(ROOT, "checks", "c14.py")


def run(patch, tier="quick"):
    scratch = tempfile.mkdtemp(prefix="chmpy-verif-mut-", dir="/dev/shm")
    try:
        shutil.copytree("/repo/src", os.path.join(scratch, "src"))
        p = subprocess.run(["patch", "-p1", "-s", "-i", patch], cwd=scratch, capture_output=True, text=True)
        if p.returncode != 0:
            return {"error": "patch failed: " + p.stdout + p.stderr}
        env = dict(os.environ, CHMPY_VERIF_SRC=os.path.join(scratch, "src"),
                   CHMPY_VERIF_REPLAYS=os.path.join(scratch, "replays"), VERIF_STOP_EARLY="1")
        t = time.time()
        p = subprocess.run([sys.executable, CHECK, "--tier", tier, "--no-evidence"], env=env, capture_output=True, text=True)
        lines = [l for l in p.stdout.splitlines() if l.startswith("violation:")]
        return {"exit": p.returncode, "wall_s": round(time.time() - t, 1), "violations": lines[:6],
                "summary_line": next((l for l in p.stdout.splitlines() if l.startswith("C14 ")), ""),
                "stderr_tail": p.stderr[-400:] if p.returncode not in (0, 1) else ""}
    finally:
        shutil.rmtree(scratch, ignore_errors=True)


def write_index():
    """INDEX.md: one line per change, from the meta.json files."""
    lines = ["| id | outcome of the quick check | first reported violation |", "|---|---|---|"]
    for name in sorted(os.listdir(SEEDED)):
        mp = os.path.join(SEEDED, name, "meta.json")
        if not os.path.exists(mp):
            continue
        m = json.load(open(mp))
        res = m.get("result", {})
        first = (res.get("violations") or [""])[0].replace("|", "/")[:170]
        lines.append("| %s | exit %s in %ss | %s |" % (name, res.get("exit"), res.get("wall_s"), first))
    with open(os.path.join(SEEDED, "INDEX.md"), "w") as f:
        f.write("\n".join(lines) + "\n")


def main():
    want = [a for a in sys.argv[1:] if not a.startswith("--")]
    jobs = next((int(a.split("=", 1)[1]) for a in sys.argv[1:] if a.startswith("--jobs=")), 1)
    names = [n for n in sorted(os.listdir(SEEDED))
             if os.path.isdir(os.path.join(SEEDED, n)) and (not want or any(n.startswith(w) for w in want))]
    if jobs > 1:
        # several changes at a time, each check with a share of the cores
        from concurrent.futures import ThreadPoolExecutor

        os.environ["VERIF_WORKERS"] = str(max(2, 16 // jobs))
        with ThreadPoolExecutor(jobs) as ex:
            results = dict(zip(names, ex.map(lambda n: run(os.path.join(SEEDED, n, "patch.diff")), names)))
    else:
        results = {}
    rows = []
    for name in names:
        d = os.path.join(SEEDED, name)
        agent = {}
        ap = os.path.join(d, "agent_meta.json")
        if os.path.exists(ap):
            try:
                agent = json.load(open(ap))
            except ValueError:
                agent = {}
        res = results[name] if name in results else run(os.path.join(d, "patch.diff"))
        meta = {
            "id": name,
            "property": "C14",
            "summary": agent.get("summary", ""),
            "needs_to_manifest": agent.get("needs", ""),
            "files": agent.get("files", []),
            "origin": agent.get("origin") or "independent sub-agent given only the property text and a scratch worktree; confirmed by hand: demo.py exits 1 with the change and 0 without, repository tests unchanged (94 pass, same 4 pre-existing failures)",
            "what_was_run": "tools/run_seeded.py: patch applied to a scratch copy of /repo/src, then `checks/c14.py --tier quick --no-evidence` with CHMPY_VERIF_SRC pointing at the copy",
            "result": res,
            "detected": res.get("exit") == 1,
        }
        with open(os.path.join(d, "meta.json"), "w") as f:
            json.dump(meta, f, indent=1)
        rows.append((name, res.get("exit"), res.get("wall_s"), (res.get("violations") or [""])[0][:160]))
        print("%-55s exit=%s %ss %s" % rows[-1])
    write_index()
    missed = [r for r in rows if r[1] != 1]
    print("%d seeded changes, %d detected, %d missed" % (len(rows), len(rows) - len(missed), len(missed)))
    return 1 if missed else 0


if __name__ == "__main__":
    sys.exit(main())
